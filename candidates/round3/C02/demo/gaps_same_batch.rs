//! Versions of one origin actor that arrive out of order *in the same batch* and fall in the
//! same recorded gap: after the batch, every inserted version must be known (not needed), and
//! the persisted gap rows must say the same as the in-memory view.

use std::{ops::RangeInclusive, sync::Arc};

use klukai_types::{
    actor::ActorId,
    agent::{BookedVersions, migrate},
    base::CrsqlDbVersion,
    sqlite::{CrConn, setup_conn},
};
use rangemap::RangeInclusiveSet;
use rusqlite::Connection;
use uuid::Uuid;

fn v(n: u64) -> CrsqlDbVersion {
    CrsqlDbVersion(n)
}

fn open() -> rusqlite::Result<CrConn> {
    let mut conn = CrConn::init(Connection::open_in_memory()?)?;
    setup_conn(&conn)?;
    migrate(Arc::new(uhlc::HLC::default()), &mut conn)?;
    Ok(conn)
}

fn insert(
    conn: &Connection,
    bv: &mut BookedVersions,
    versions: RangeInclusiveSet<CrsqlDbVersion>,
) -> rusqlite::Result<()> {
    let mut snap = bv.snapshot();
    snap.insert_db(conn, versions)?;
    bv.commit_snapshot(snap);
    Ok(())
}

fn db_gaps(
    conn: &Connection,
    actor_id: ActorId,
) -> rusqlite::Result<Vec<RangeInclusive<CrsqlDbVersion>>> {
    conn.prepare_cached(
        "SELECT start, end FROM __corro_bookkeeping_gaps WHERE actor_id = ? ORDER BY start",
    )?
    .query_map([actor_id], |row| Ok(row.get(0)?..=row.get(1)?))?
    .collect()
}

#[test]
fn two_versions_of_one_gap_in_one_batch() -> rusqlite::Result<()> {
    let conn = open()?;
    let actor_id = ActorId(Uuid::new_v4());
    let mut bv = BookedVersions::new(actor_id);

    // version 10 arrives first: 1..=9 are needed
    insert(&conn, &mut bv, [v(10)..=v(10)].into_iter().collect())?;
    assert_eq!(db_gaps(&conn, actor_id)?, vec![v(1)..=v(9)]);

    // 3 and 6 arrive in the same batch
    insert(
        &conn,
        &mut bv,
        [v(3)..=v(3), v(6)..=v(6)].into_iter().collect(),
    )?;

    let expected = vec![v(1)..=v(2), v(4)..=v(5), v(7)..=v(9)];

    assert!(bv.contains_version(&v(3)), "3 was inserted, it is held");
    assert!(bv.contains_version(&v(6)), "6 was inserted, it is held");
    assert_eq!(
        bv.needed().iter().cloned().collect::<Vec<_>>(),
        expected,
        "in-memory needed"
    );
    assert_eq!(db_gaps(&conn, actor_id)?, expected, "persisted gaps");

    Ok(())
}

#[test]
fn any_batch_inside_a_gap_leaves_exactly_the_rest_needed() -> rusqlite::Result<()> {
    let conn = open()?;

    // head is 10, 1..=9 is one gap; then any non-empty subset of 1..=9 arrives as one batch
    for mask in 1u32..(1 << 9) {
        let actor_id = ActorId(Uuid::new_v4());
        let mut bv = BookedVersions::new(actor_id);
        insert(&conn, &mut bv, [v(10)..=v(10)].into_iter().collect())?;

        let batch: RangeInclusiveSet<CrsqlDbVersion> = (1..=9u64)
            .filter(|n| mask & (1 << (n - 1)) != 0)
            .map(|n| v(n)..=v(n))
            .collect();
        let mut expected = RangeInclusiveSet::new();
        expected.insert(v(1)..=v(9));
        for range in batch.iter() {
            expected.remove(range.clone());
        }

        insert(&conn, &mut bv, batch.clone())?;

        assert_eq!(bv.needed(), &expected, "in-memory needed, batch {batch:?}");
        assert_eq!(
            db_gaps(&conn, actor_id)?,
            expected.iter().cloned().collect::<Vec<_>>(),
            "persisted gaps, batch {batch:?}"
        );
        for n in 1..=10u64 {
            assert_eq!(
                bv.contains_version(&v(n)),
                !expected.contains(&v(n)),
                "version {n} after batch {batch:?}"
            );
        }
        assert_eq!(bv.last(), Some(v(10)));
    }

    Ok(())
}
