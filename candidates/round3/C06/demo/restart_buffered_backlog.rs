//! Crash/restart demonstration for property C06:
//!
//! "Versions that were completely buffered but not yet applied are applied after restart,
//!  and continued operation still converges."
//!
//! Scenario
//!  1. node B receives the first half (seqs 0..=1 of 0..=3) of N versions of node A: they are
//!     buffered, every one of them is a partially received version.
//!  2. B "crashes" right after the commit that stores the second half of every version: its
//!     background loops are stopped first (tripwire), so the commit happens but nothing gets to
//!     apply the (now completely buffered) versions.
//!  3. B is restarted on the same files.  Every completely buffered version must get applied.
//!
//! N is larger than the capacity of the `apply` channel (perf.apply_channel_len) of B.

use std::time::{Duration, Instant};

use axum::Extension;
use hyper::StatusCode;
use klukai_agent::{
    agent::{process_multiple_changes, start_with_config},
    api::public::{TimeoutParams, api_v1_db_schema, api_v1_transactions},
};
use klukai_tests::{TEST_SCHEMA, launch_test_agent};
use klukai_types::{
    agent::Agent,
    api::Statement,
    base::{CrsqlDbVersion, CrsqlSeq},
    broadcast::{ChangeSource, ChangeV1, Changeset},
    change::{Change, row_to_change},
    sync::generate_sync,
    tripwire::Tripwire,
};

const APPLY_CHANNEL_LEN: usize = 4;
const VERSIONS: u64 = 12;

async fn chunk_of(
    agent: &Agent,
    version: CrsqlDbVersion,
    seqs: std::ops::RangeInclusive<CrsqlSeq>,
    last_seq: CrsqlSeq,
) -> eyre::Result<(ChangeV1, ChangeSource, Instant)> {
    let conn = agent.pool().read().await?;
    let changes: Vec<Change> = conn
        .prepare(
            r#"SELECT "table", pk, cid, val, col_version, db_version, seq, site_id, cl
                 FROM crsql_changes WHERE db_version = ? AND seq >= ? AND seq <= ? ORDER BY seq"#,
        )?
        .query_map((version, seqs.start(), seqs.end()), row_to_change)?
        .collect::<Result<Vec<_>, _>>()?;
    assert_eq!(
        changes.len() as u64,
        seqs.end().0 - seqs.start().0 + 1,
        "unexpected shape of version {version}"
    );
    Ok((
        ChangeV1 {
            actor_id: agent.actor_id(),
            changeset: Changeset::Full {
                version,
                changes,
                seqs,
                last_seq,
                ts: agent.clock().new_timestamp().into(),
            },
        },
        ChangeSource::Sync,
        Instant::now(),
    ))
}

async fn count(agent: &Agent, sql: &str) -> eyre::Result<u64> {
    let conn = agent.pool().read().await?;
    Ok(conn.query_row(sql, [], |row| row.get(0))?)
}

#[tokio::test(flavor = "multi_thread", worker_threads = 2)]
async fn completely_buffered_versions_are_applied_after_restart() -> eyre::Result<()> {
    _ = tracing_subscriber::fmt::try_init();

    let (tripwire_a, _worker_a, _tx_a) = Tripwire::new_simple();
    let (tripwire_b, worker_b, tx_b) = Tripwire::new_simple();

    let ta = launch_test_agent(|conf| conf.build(), tripwire_a.clone()).await?;
    let tb = launch_test_agent(
        |conf| {
            conf.build().map(|mut conf| {
                conf.perf.apply_channel_len = APPLY_CHANNEL_LEN;
                conf
            })
        },
        tripwire_b.clone(),
    )
    .await?;

    for agent in [&ta.agent, &tb.agent] {
        let (status, _) = api_v1_db_schema(
            Extension(agent.clone()),
            axum::Json(vec![TEST_SCHEMA.into()]),
        )
        .await;
        assert_eq!(status, StatusCode::OK);
    }

    // N local transactions on A: each one is a version of 4 changes (seqs 0..=3)
    for i in 1..=VERSIONS as i64 {
        let (status, _) = api_v1_transactions(
            Extension(ta.agent.clone()),
            axum::extract::Query(TimeoutParams { timeout: None }),
            axum::Json(vec![Statement::WithParams(
                "INSERT INTO tests3 (id,text,text2,num,num2) VALUES (?,?,?,?,?)".into(),
                vec![
                    i.into(),
                    "service-name".into(),
                    "second text".into(),
                    (i + 20).into(),
                    (i + 100).into(),
                ],
            )]),
        )
        .await;
        assert_eq!(status, StatusCode::OK);
    }

    let last_seq = CrsqlSeq(3);
    let mut first_halves = vec![];
    let mut second_halves = vec![];
    for v in 1..=VERSIONS {
        first_halves
            .push(chunk_of(&ta.agent, CrsqlDbVersion(v), CrsqlSeq(0)..=CrsqlSeq(1), last_seq).await?);
        second_halves
            .push(chunk_of(&ta.agent, CrsqlDbVersion(v), CrsqlSeq(2)..=CrsqlSeq(3), last_seq).await?);
    }

    let tx_timeout = Duration::from_secs(60);

    // 1. B buffers the first half of every version
    process_multiple_changes(tb.agent.clone(), tb.bookie.clone(), first_halves, tx_timeout)
        .await?;
    assert_eq!(
        count(&tb.agent, "SELECT count(*) FROM __corro_seq_bookkeeping").await?,
        VERSIONS
    );

    // 2. "crash": B's background loops stop, then the commit that completes every version happens
    tx_b.send(()).await.ok();
    worker_b.await;
    tokio::time::sleep(Duration::from_millis(500)).await;

    process_multiple_changes(tb.agent.clone(), tb.bookie.clone(), second_halves, tx_timeout)
        .await?;
    tokio::time::sleep(Duration::from_secs(1)).await;

    // the state the node died in: everything buffered completely, nothing applied
    assert_eq!(
        count(
            &tb.agent,
            "SELECT count(*) FROM __corro_seq_bookkeeping WHERE start_seq = 0 AND end_seq = last_seq"
        )
        .await?,
        VERSIONS,
        "every version should be completely buffered at the time of the crash"
    );
    assert_eq!(
        count(&tb.agent, "SELECT count(*) FROM tests3").await?,
        0,
        "nothing should have been applied before the crash"
    );

    // 3. restart on the same files
    let (tripwire_r, _worker_r, _tx_r) = Tripwire::new_simple();
    let (restarted, bookie, _transport, _handles) =
        start_with_config(tb.config.clone(), tripwire_r).await?;
    assert_eq!(restarted.actor_id(), tb.agent.actor_id());

    let deadline = Instant::now() + Duration::from_secs(20);
    let mut applied = 0;
    while Instant::now() < deadline {
        applied = count(&restarted, "SELECT count(*) FROM tests3").await?;
        if applied == VERSIONS {
            break;
        }
        tokio::time::sleep(Duration::from_millis(250)).await;
    }

    // what the restarted node tells its peers about A
    let state = generate_sync(&bookie, restarted.actor_id()).await;
    println!(
        "applied {applied}/{VERSIONS} versions; sync state: heads {:?}, need {:?}, partial_need {:?}",
        state.heads.get(&ta.agent.actor_id()),
        state.need.get(&ta.agent.actor_id()),
        state.partial_need.get(&ta.agent.actor_id()),
    );

    assert_eq!(
        applied, VERSIONS,
        "versions that were completely buffered at the time of the crash were not applied after \
         the restart (and the node does not list them as needed either)"
    );
    assert_eq!(
        count(&restarted, "SELECT count(*) FROM __corro_seq_bookkeeping").await?,
        0,
        "no version should look partially received anymore"
    );

    Ok(())
}
