//! C07 demo: a write request whose middle statement runs into the request timeout must have
//! no effect at all - no row change, no version consumed, no gap in the node's own versions.

use axum::Extension;
use hyper::StatusCode;
use klukai_agent::{
    agent::setup,
    api::public::{TimeoutParams, api_v1_db_schema, api_v1_transactions},
};
use klukai_types::{
    api::Statement,
    base::CrsqlDbVersion,
    broadcast::{BroadcastInput, BroadcastV1, ChangeV1, Changeset},
    config::Config,
    tripwire::Tripwire,
};
use tokio::sync::mpsc::error::TryRecvError;

// a *write* statement that keeps sqlite busy far longer than the 1s request timeout
const SLOW_INSERT: &str = "INSERT INTO tests (id, text) \
    SELECT 500, 'slow' WHERE ( \
        WITH RECURSIVE c(x) AS (SELECT 1 UNION ALL SELECT x + 1 FROM c WHERE x < 4000000000) \
        SELECT count(*) FROM c \
    ) > 0";

#[tokio::test(flavor = "multi_thread", worker_threads = 2)]
async fn request_timing_out_at_a_middle_statement_has_no_effect() -> eyre::Result<()> {
    _ = tracing_subscriber::fmt::try_init();

    let (tripwire, _tripwire_worker, _tripwire_tx) = Tripwire::new_simple();
    let dir = tempfile::tempdir()?;

    let (agent, mut agent_options) = setup(
        Config::builder()
            .db_path(dir.path().join("corrosion.db").display().to_string())
            .gossip_addr("127.0.0.1:0".parse()?)
            .api_addr("127.0.0.1:0".parse()?)
            .build()?,
        tripwire,
    )
    .await?;
    let rx_bcast = &mut agent_options.rx_bcast;

    let (status, _) = api_v1_db_schema(
        Extension(agent.clone()),
        axum::Json(vec![klukai_tests::TEST_SCHEMA.into()]),
    )
    .await;
    assert_eq!(status, StatusCode::OK);

    // 1. an ordinary write: version 1
    let (status, body) = api_v1_transactions(
        Extension(agent.clone()),
        axum::extract::Query(TimeoutParams { timeout: None }),
        axum::Json(vec![Statement::WithParams(
            "insert into tests (id, text) values (?,?)".into(),
            vec![1i64.into(), "one".into()],
        )]),
    )
    .await;
    assert_eq!(status, StatusCode::OK);
    assert_eq!(body.0.version, Some(1));
    let msg = rx_bcast.recv().await.expect("no broadcast for version 1");
    assert!(matches!(
        msg,
        BroadcastInput::AddBroadcast(BroadcastV1::Change(ChangeV1 {
            changeset: Changeset::Full {
                version: CrsqlDbVersion(1),
                ..
            },
            ..
        }))
    ));

    // 2. three statements, the middle one exceeds the 1s timeout: the request is refused
    let (status, body) = api_v1_transactions(
        Extension(agent.clone()),
        axum::extract::Query(TimeoutParams { timeout: Some(1) }),
        axum::Json(vec![
            Statement::WithParams(
                "insert into tests (id, text) values (?,?)".into(),
                vec![2i64.into(), "two".into()],
            ),
            Statement::Simple(SLOW_INSERT.into()),
            Statement::WithParams(
                "insert into tests (id, text) values (?,?)".into(),
                vec![3i64.into(), "three".into()],
            ),
        ]),
    )
    .await;
    println!("refused request: {status} {body:?}");
    assert_eq!(status, StatusCode::INTERNAL_SERVER_ERROR);
    assert_eq!(body.0.version, None);

    // ... and must have had no effect at all
    let leaked: Vec<i64> = {
        let conn = agent.pool().read().await?;
        let mut prepped = conn.prepare("SELECT id FROM tests WHERE id <> 1 ORDER BY id")?;
        prepped
            .query_map((), |row| row.get(0))?
            .collect::<Result<Vec<_>, _>>()?
    };
    assert_eq!(
        leaked,
        Vec::<i64>::new(),
        "rows of the refused request are in the database"
    );
    tokio::time::sleep(std::time::Duration::from_millis(200)).await;
    assert!(
        matches!(rx_bcast.try_recv(), Err(TryRecvError::Empty)),
        "the refused request emitted a change message"
    );
    assert_eq!(
        agent.booked().read::<&str, _>("test", None).await.last(),
        Some(CrsqlDbVersion(1))
    );

    // 3. the next write gets the next version, the refused request consumed none
    let (status, body) = api_v1_transactions(
        Extension(agent.clone()),
        axum::extract::Query(TimeoutParams { timeout: None }),
        axum::Json(vec![Statement::WithParams(
            "insert into tests (id, text) values (?,?)".into(),
            vec![4i64.into(), "four".into()],
        )]),
    )
    .await;
    assert_eq!(status, StatusCode::OK);
    assert_eq!(
        body.0.version,
        Some(2),
        "the refused request consumed a version"
    );

    let booked = agent.booked().read::<&str, _>("test", None).await;
    assert_eq!(booked.last(), Some(CrsqlDbVersion(2)));
    assert!(
        booked.needed().is_empty(),
        "the node lists a gap in its own versions: {:?}",
        booked.needed()
    );

    Ok(())
}
