//! Restoring over a live WAL database whose WAL still holds frames, while
//! another process keeps a connection to it open (idle, no transaction).
//!
//! The restore runs in a child process (this test binary re-executed), the
//! long-lived connection lives in the parent. After the restore succeeded,
//! whatever the long-lived connection reads in ONE statement must be entirely
//! the old or entirely the new database, never a mix of both.

use std::{path::Path, process::Command, time::Duration};

use klukai_types::sqlite3_restore;
use rusqlite::Connection;

const ENV_SRC: &str = "RESTORE_LIVE_READER_SRC";
const ENV_DST: &str = "RESTORE_LIVE_READER_DST";

fn seed(conn: &Connection, tag: &str) {
    conn.execute_batch(
        "CREATE TABLE a (id INTEGER PRIMARY KEY, v TEXT NOT NULL);
         CREATE TABLE b (id INTEGER PRIMARY KEY, v TEXT NOT NULL);",
    )
    .unwrap();
    for id in 0..50 {
        conn.execute("INSERT INTO a (id, v) VALUES (?, ?)", (id, tag))
            .unwrap();
        conn.execute("INSERT INTO b (id, v) VALUES (?, ?)", (id, tag))
            .unwrap();
    }
}

fn snapshot(conn: &Connection) -> rusqlite::Result<(String, String)> {
    // a single statement = a single read transaction = a single snapshot
    conn.query_row(
        "SELECT (SELECT group_concat(DISTINCT v) FROM a), (SELECT group_concat(DISTINCT v) FROM b)",
        [],
        |row| Ok((row.get(0)?, row.get(1)?)),
    )
}

/// Only does something when re-executed by `restore_over_idle_live_wal_connection`.
#[test]
fn restore_child() {
    let (Ok(src), Ok(dst)) = (std::env::var(ENV_SRC), std::env::var(ENV_DST)) else {
        return;
    };
    let restored = sqlite3_restore::restore(src, dst, Duration::from_secs(5)).unwrap();
    assert!(restored.is_wal);
}

fn restore_in_child(src: &Path, dst: &Path) {
    let out = Command::new(std::env::current_exe().unwrap())
        .args(["--exact", "restore_child", "--nocapture", "--test-threads", "1"])
        .env(ENV_SRC, src)
        .env(ENV_DST, dst)
        .output()
        .unwrap();
    assert!(
        out.status.success(),
        "restore in child process failed:\n{}\n{}",
        String::from_utf8_lossy(&out.stdout),
        String::from_utf8_lossy(&out.stderr)
    );
}

#[test]
fn restore_over_idle_live_wal_connection() {
    let tmpdir = tempfile::TempDir::new().unwrap();
    let src = tmpdir.path().join("src.db");
    let dst = tmpdir.path().join("dst.db");

    // the backup: everything is 'new', fully checkpointed
    {
        let conn = Connection::open(&src).unwrap();
        conn.execute_batch("PRAGMA journal_mode = WAL;").unwrap();
        seed(&conn, "new");
        conn.execute_batch("PRAGMA wal_checkpoint(TRUNCATE);")
            .unwrap();
    }

    // the live destination: stays open for the whole test
    let live = Connection::open(&dst).unwrap();
    live.execute_batch("PRAGMA journal_mode = WAL;").unwrap();
    seed(&live, "older");
    live.execute("UPDATE b SET v = 'old'", []).unwrap();
    live.execute_batch("PRAGMA wal_checkpoint(TRUNCATE);")
        .unwrap();
    // the last committed change before the restore is still in the WAL only
    live.execute("UPDATE a SET v = 'old'", []).unwrap();

    assert_eq!(snapshot(&live).unwrap(), ("old".into(), "old".into()));

    restore_in_child(&src, &dst);

    let seen = snapshot(&live);
    println!("long-lived connection reads after the restore: {seen:?}");
    match seen {
        Ok((a, b)) => {
            assert_eq!(
                a, b,
                "torn read: table a shows '{a}' but table b shows '{b}' in the same snapshot"
            );
            assert_eq!(a, "new", "restore succeeded but the old content is served");
        }
        Err(e) => panic!("read refused although the restore is over: {e}"),
    }

    // and a connection opened afterwards agrees with it
    let fresh = Connection::open(&dst).unwrap();
    assert_eq!(snapshot(&fresh).unwrap(), ("new".into(), "new".into()));
}
