//! C20 demo: a queued write request that is cancelled right when its turn comes
//! must not wedge the write queue.
//!
//! Interleaving:
//!   1. A holds the write connection.
//!   2. B asks for the write connection and is queued behind A.
//!   3. A releases the connection; the dispatcher hands the turn over to B.
//!   4. B is cancelled (its future is dropped: client went away, request timed out, task aborted)
//!      before it gets to run again.
//!   5. C asks for the write connection: it must get it.

use std::{sync::Arc, time::Duration};

use klukai_types::agent::SplitPool;
use tokio::sync::Semaphore;

#[tokio::test]
async fn cancelled_queued_writer_does_not_wedge_the_queue() {
    let tmpdir = tempfile::tempdir().unwrap();
    let pool = SplitPool::create(tmpdir.path().join("test.db"), Arc::new(Semaphore::new(1)))
        .await
        .unwrap();

    // 1. A holds the write connection
    let a = tokio::time::timeout(Duration::from_secs(10), pool.write_priority())
        .await
        .expect("first writer timed out")
        .unwrap();

    // 2. B is queued behind A
    let mut b = Box::pin(pool.write_normal());
    assert!(
        futures::poll!(b.as_mut()).is_pending(),
        "B got a write connection while A still holds it"
    );

    // 3. A is done, the dispatcher serves the next queued request: B
    drop(a);
    tokio::time::sleep(Duration::from_millis(200)).await;

    // 4. B is cancelled before it is polled again
    drop(b);

    // 5. the write connection is free, every priority must still be served
    for _ in 0..2 {
        let c = tokio::time::timeout(Duration::from_secs(10), pool.write_priority())
            .await
            .expect("write queue is wedged: no write connection 10s after the last holder went away")
            .unwrap();
        drop(c);
        let d = tokio::time::timeout(Duration::from_secs(10), pool.write_low())
            .await
            .expect("write queue is wedged: no write connection 10s after the last holder went away")
            .unwrap();
        drop(d);
    }
}
