//! libFuzzer target: arbitrary bytes into the four real decode sites, with C09's hostile-bytes oracle
//! (no panic, bounded allocation, valid UTF-8 in accepted values, accepted values re-encode) inside.
#![no_main]
#![feature(alloc_error_hook)]
#![allow(dead_code, unused_imports)]

#[path = "../../harness/src/alloc.rs"]
mod alloc;
#[path = "../../harness/src/common.rs"]
mod common;
#[path = "../../harness/src/c09.rs"]
mod c09;

#[path = "stubs.rs"]
mod stubs;

use libfuzzer_sys::fuzz_target;

#[global_allocator]
static GLOBAL: alloc::Tracking = alloc::Tracking;

fuzz_target!(|data: &[u8]| {
    if data.is_empty() {
        return;
    }
    let kind = match data[0] % 3 {
        0 => c09::Kind::Uni,
        1 => c09::Kind::Bi,
        _ => c09::Kind::Sync,
    };
    let mut info = common::CaseInfo::default();
    if let Err(f) = c09::hostile_decode(kind, &data[1..], &mut info) {
        if f.clause != "infra" {
            panic!("C09 {}: {}", f.clause, f.msg);
        }
    }
});
