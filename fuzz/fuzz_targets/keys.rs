//! libFuzzer target: arbitrary bytes into `unpack_columns` with C09's oracle for packed keys.
#![no_main]
#![feature(alloc_error_hook)]
#![allow(dead_code, unused_imports)]

#[path = "../../harness/src/alloc.rs"]
mod alloc;
#[path = "../../harness/src/common.rs"]
mod common;
#[path = "../../harness/src/c09.rs"]
mod c09;

#[path = "stubs.rs"]
mod stubs;

use libfuzzer_sys::fuzz_target;

#[global_allocator]
static GLOBAL: alloc::Tracking = alloc::Tracking;

fuzz_target!(|data: &[u8]| {
    let mut info = common::CaseInfo::default();
    if let Err(f) = c09::unpack_hostile(data, &mut info) {
        if f.clause != "infra" {
            panic!("C09 {}: {}", f.clause, f.msg);
        }
    }
});
