//! klukai-types pulls in `defmt` (through a dependency); a final binary must provide its logger symbols.
#[unsafe(no_mangle)]
fn _defmt_write(_bytes: &[u8]) {}
#[unsafe(no_mangle)]
fn _defmt_acquire() {}
#[unsafe(no_mangle)]
fn _defmt_release() {}
#[unsafe(no_mangle)]
fn _defmt_flush() {}
// `Formatter` is a thin wrapper around a pointer-sized value; the stub never looks at it
#[unsafe(no_mangle)]
fn _defmt_timestamp(_fmt: usize) {}
#[unsafe(no_mangle)]
fn _defmt_panic() -> ! {
    panic!("defmt panic")
}
