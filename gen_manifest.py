#!/usr/bin/env python3
"""Generates MANIFEST.json from props.py (keeps the manifest in step with the driver's table)."""
import json, os, sys
ROOT = os.path.dirname(os.path.abspath(__file__))
sys.path.insert(0, ROOT)
from props import PROPS, NOT_APPLICABLE, ENGINES

checks = []
for pid in sorted(PROPS):
    c = PROPS[pid]
    checks.append({
        "property_id": pid,
        "quick_cmd": f"./check {pid} --tier quick",
        "thorough_cmd": f"./check {pid} --tier thorough",
        "evidence_file": f"/verif/evidence/{pid}.json",
        "replay_cmd_template": f"./check {pid} --replay {{path}}",
        "engine": c.get("engine", "kverif"),
        "level_claimed": {"category": c["level"], "text": c["level_text"], "design_ref": c.get("design_ref", f"DESIGN.md §2 {pid}")},
        "level_note": c["level_note"],
        "technique": c["technique"],
    })
m = {
    "version": 1,
    "setup_cmd": "./check --build-only",
    "hooks": {
        "guard": "cargo feature `verif-hooks` of crate klukai-agent (default off)",
        "enable": "the harness crate /verif/harness depends on klukai-agent with features=[\"verif-hooks\"]; nothing else enables it",
        "baseline_off_cmd": "cd /repo && cargo nextest run --workspace --no-fail-fast --tool-config-file pb:/w/lib/nextest.toml --profile pb --test-threads 8 --offline",
        "source_commits": json.load(open(os.path.join(ROOT, "hooks.json")))["source_commits"],
        "add_only": True,
    },
    "engines": ENGINES,
    "checks": checks,
    "not_applicable": NOT_APPLICABLE,
    "notes": "Exit codes of ./check: 0 held, 1 violation (VIOLATION line), 2 infrastructure/inconclusive (never a verdict). "
             "VERIF_SEED and VERIF_TIER are honoured. Known findings: /verif/known_findings.json.",
}
json.dump(m, open(os.path.join(ROOT, "MANIFEST.json"), "w"), indent=1)
print("wrote MANIFEST.json with", len(checks), "checks")
