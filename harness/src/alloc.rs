//! Counting / limiting global allocator.  While tracking is switched on for the current thread it
//! records the peak and the largest single request, and refuses (returns null) requests above a hard
//! cap; the alloc-error hook turns the refusal into a panic so that `catch_unwind` sees it instead of
//! the process aborting.  Used by the C09 hostile-bytes oracle ("never allocates memory unrelated to
//! the input size", "never aborts").

use std::{
    alloc::{GlobalAlloc, Layout, System},
    cell::Cell,
};

pub struct Tracking;

thread_local! {
    static ON: Cell<bool> = const { Cell::new(false) };
    static CUR: Cell<usize> = const { Cell::new(0) };
    static PEAK: Cell<usize> = const { Cell::new(0) };
    static MAX_SINGLE: Cell<usize> = const { Cell::new(0) };
    static REFUSED: Cell<usize> = const { Cell::new(0) };
    static CAP: Cell<usize> = const { Cell::new(usize::MAX) };
}

#[inline]
fn on() -> bool {
    ON.try_with(|c| c.get()).unwrap_or(false)
}

unsafe impl GlobalAlloc for Tracking {
    unsafe fn alloc(&self, layout: Layout) -> *mut u8 {
        if on() {
            let size = layout.size();
            if size > CAP.with(|c| c.get()) {
                REFUSED.with(|c| c.set(size));
                return std::ptr::null_mut();
            }
            let cur = CUR.with(|c| {
                let v = c.get() + size;
                c.set(v);
                v
            });
            PEAK.with(|c| c.set(c.get().max(cur)));
            MAX_SINGLE.with(|c| c.set(c.get().max(size)));
        }
        unsafe { System.alloc(layout) }
    }
    unsafe fn dealloc(&self, ptr: *mut u8, layout: Layout) {
        if on() {
            CUR.with(|c| c.set(c.get().saturating_sub(layout.size())));
        }
        unsafe { System.dealloc(ptr, layout) }
    }
    unsafe fn realloc(&self, ptr: *mut u8, layout: Layout, new_size: usize) -> *mut u8 {
        if on() {
            if new_size > CAP.with(|c| c.get()) {
                REFUSED.with(|c| c.set(new_size));
                return std::ptr::null_mut();
            }
            let cur = CUR.with(|c| {
                let v = c.get().saturating_sub(layout.size()) + new_size;
                c.set(v);
                v
            });
            PEAK.with(|c| c.set(c.get().max(cur)));
            MAX_SINGLE.with(|c| c.set(c.get().max(new_size)));
        }
        unsafe { System.realloc(ptr, layout, new_size) }
    }
}

#[derive(Debug, Clone, Copy, Default)]
pub struct Stats {
    pub peak: usize,
    pub max_single: usize,
    pub refused: usize,
}

/// Run `f` with allocation tracking on this thread; requests above `cap` bytes are refused.
pub fn tracked<R>(cap: usize, f: impl FnOnce() -> R) -> (R, Stats) {
    CUR.with(|c| c.set(0));
    PEAK.with(|c| c.set(0));
    MAX_SINGLE.with(|c| c.set(0));
    REFUSED.with(|c| c.set(0));
    CAP.with(|c| c.set(cap));
    ON.with(|c| c.set(true));
    struct Off;
    impl Drop for Off {
        fn drop(&mut self) {
            ON.with(|c| c.set(false));
        }
    }
    let off = Off;
    let r = f();
    drop(off);
    let st = Stats { peak: PEAK.with(|c| c.get()), max_single: MAX_SINGLE.with(|c| c.get()), refused: REFUSED.with(|c| c.get()) };
    (r, st)
}

pub fn last_stats() -> Stats {
    Stats { peak: PEAK.with(|c| c.get()), max_single: MAX_SINGLE.with(|c| c.get()), refused: REFUSED.with(|c| c.get()) }
}

pub fn install_hook() {
    std::alloc::set_alloc_error_hook(|layout| {
        // only reached for refused (or genuinely failed) infallible allocations
        ON.with(|c| c.set(false));
        panic!("allocation of {} bytes refused/failed", layout.size());
    });
}
