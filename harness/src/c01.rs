//! C01 – replicas converge under any delivery order, duplication, chunking and loss.
//! Engine E2.  Oracle at the fix-point of a fair schedule: all nodes equal each other and the
//! reference replica (rows and per-cell col_version / cl), nothing needed, heads equal; plus value
//! provenance (no value that no acknowledged statement wrote).

use std::time::Duration;

use proptest::prelude::*;
use serde::{Deserialize, Serialize};

use crate::{
    c07::stmt_strategy,
    common::{CaseInfo, Ctx, Fail, Report, Tier, replay_case, run_prop},
    sim::{self, Stmt},
    world::{NeedSpec, Op, World},
};

#[derive(Debug, Clone, Serialize, Deserialize)]
pub struct Case {
    pub nodes: u8,
    pub ops: Vec<Op>,
}

pub fn need_strategy() -> impl Strategy<Value = NeedSpec> {
    prop_oneof![
        (any::<u8>(), any::<u8>()).prop_map(|(from, len)| NeedSpec::Full { from, len }),
        (any::<u8>(), proptest::collection::vec((any::<u8>(), any::<u8>()), 1..3)).prop_map(|(ver, ranges)| NeedSpec::Partial { ver, ranges }),
    ]
}

/// statements over a *small* key space so that conflicting writers, overwrites and re-inserts are common
pub fn hot_stmt_strategy() -> impl Strategy<Value = Stmt> {
    let key = || prop_oneof![4 => 0u8..2, 1 => 0u8..6];
    prop_oneof![
        5 => (key(), any::<u16>()).prop_map(|(key, tag)| Stmt::UpsertKv { key, tag }),
        2 => (key(), any::<u16>()).prop_map(|(key, tag)| Stmt::UpdateKvA { key, tag }),
        2 => (key(), any::<u16>()).prop_map(|(key, tag)| Stmt::UpdateKvB { key, tag }),
        1 => any::<u16>().prop_map(|tag| Stmt::UpdateAllKvB { tag }),
        3 => key().prop_map(|key| Stmt::DeleteKv { key }),
        2 => (0u8..2, 0u8..1, any::<u16>()).prop_map(|(k1, k2, tag)| Stmt::UpsertPair { k1, k2, tag }),
        1 => (0u8..2, 0u8..1).prop_map(|(k1, k2)| Stmt::DeletePair { k1, k2 }),
        4 => (0u8..2, 2u8..5, any::<u16>()).prop_map(|(key, size_class, tag)| Stmt::UpsertBig { key, size_class, tag }),
        1 => (0u8..2).prop_map(|key| Stmt::DeleteBig { key }),
        1 => (0u8..6, any::<u16>()).prop_map(|(n, tag)| Stmt::MultiKv { n, tag }),
        1 => stmt_strategy(),
    ]
}

pub fn op_strategy(w_tx: u32, w_deliver: u32, w_sync: u32, w_serve: u32, w_apply: u32, w_clear: u32) -> impl Strategy<Value = Op> {
    prop_oneof![
        w_tx => (0u8..4, proptest::collection::vec(hot_stmt_strategy(), 1..6)).prop_map(|(node, stmts)| Op::Tx { node, stmts }),
        w_deliver => (0u8..4, 0u8..4, 0u8..4, need_strategy(), prop_oneof![3 => Just(0u8), 1 => any::<u8>()], any::<bool>())
            .prop_map(|(client, server, origin, need, drop_mask, batch)| Op::Fetch { client, server, origin, need, drop_mask, batch }),
        w_deliver => (0u8..4, proptest::collection::vec(any::<u16>(), 1..6), any::<bool>()).prop_map(|(dst, picks, batch)| Op::Deliver { dst, picks, batch }),
        w_sync => (0u8..4, 0u8..4, prop_oneof![Just(0u32), any::<u32>()], any::<bool>(), any::<bool>()).prop_map(|(client, server, drop_mask, rev, batch)| Op::Sync { client, server, drop_mask, rev, batch }),
        w_serve => (0u8..4, 0u8..4, need_strategy()).prop_map(|(server, origin, need)| Op::Serve { server, origin, need }),
        w_apply => (0u8..4, any::<bool>(), any::<u8>()).prop_map(|(node, all, which)| Op::Apply { node, all, which }),
        w_clear => (0u8..4).prop_map(|node| Op::Clear { node }),
    ]
}

pub fn case_strategy(max_ops: usize) -> impl Strategy<Value = Case> {
    (2u8..=4, proptest::collection::vec(op_strategy(8, 5, 2, 1, 2, 1), 8..=max_ops)).prop_map(|(nodes, ops)| Case { nodes, ops })
}

pub async fn run_case(case: &Case, info: &mut CaseInfo, root: std::path::PathBuf) -> Result<(), Fail> {
    let mut w = World::new(case.nodes as usize, &root).await?;
    for op in &case.ops {
        w.step(op, info).await?;
    }
    for i in 0..w.n() {
        w.check_provenance(i).await?;
    }
    let rounds = w.quiesce(12, info).await?;
    w.check_converged().await?;
    for i in 0..w.n() {
        w.check_provenance(i).await?;
    }
    w.classify(info);
    if rounds >= 2 {
        info.class("needed>=2-sync-rounds");
    }
    let s = &w.stats;
    info.nontrivial = s.conflicting_cells > 0 && (s.dropped_msgs > 0 || s.dup_deliveries > 0 || s.reordered || s.partial_deliveries > 0);
    Ok(())
}

pub fn with_world<F, Fut>(prefix: &str, f: F) -> Result<(), Fail>
where
    F: FnOnce(std::path::PathBuf) -> Fut,
    Fut: std::future::Future<Output = Result<(), Fail>>,
{
    let root = sim::scratch_root();
    let _ = std::fs::create_dir_all(&root);
    let dir = tempfile::Builder::new().prefix(prefix).tempdir_in(root).map_err(|e| Fail::infra(e.to_string()))?;
    let rt = sim::new_runtime(2);
    let r = rt.block_on(f(dir.path().to_path_buf()));
    rt.shutdown_timeout(Duration::from_millis(200));
    r
}

pub fn check(case: &Case, info: &mut CaseInfo) -> Result<(), Fail> {
    with_world("c01-", |root| run_case(case, info, root))
}

pub fn run(ctx: &Ctx, rep: &mut Report) {
    let (n, ops) = match ctx.tier {
        Tier::Quick => (400, 30),
        Tier::Thorough => (20_000, 60),
    };
    run_prop(ctx, rep, "histories", case_strategy(ops), n, 200, check);
}

pub fn replay(_sub: &str, case: &serde_json::Value) -> Result<CaseInfo, Fail> {
    replay_case::<Case, _>(case, check)
}
