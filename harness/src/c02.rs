//! C02 – advertised sync state is an exact, durable summary of what a node holds.
//! Tier A (E1): BookedVersions + in-memory cr-sqlite connection, generated and exhaustively enumerated
//! sequences of version-range insertions against a set model (gap algebra, persisted rows, reload).
//! Tier B (E2): generated multi-node histories; after every step the advertised state of every node is
//! compared with a set model built from what the harness delivered, and with what a reload from disk
//! would advertise.

use std::{cell::RefCell, collections::BTreeSet, sync::Arc};

use klukai_types::{
    actor::ActorId,
    agent::{BookedVersions, migrate},
    base::CrsqlDbVersion,
    sqlite::CrConn,
};
use proptest::prelude::*;
use rangemap::RangeInclusiveSet;
use serde::{Deserialize, Serialize};
use serde_json::json;
use uuid::Uuid;

use crate::{
    c01::{self, with_world},
    common::{CaseInfo, Ctx, Fail, Report, Tier, eval_enumerated, replay_case, run_prop},
    ensure,
    world::World,
};

// ------------------------------------------------------------------------------------------------
// tier A

#[derive(Debug, Clone, Serialize, Deserialize, PartialEq)]
pub enum GOp {
    /// insert a set of version ranges in one snapshot (as one processed batch does)
    Insert(Vec<(u8, u8)>),
    Reload,
}

#[derive(Debug, Clone, Serialize, Deserialize)]
pub struct GCase {
    pub ops: Vec<GOp>,
}

fn range_strategy() -> impl Strategy<Value = (u8, u8)> {
    prop_oneof![
        3 => (1u8..=24).prop_map(|v| (v, v)),
        3 => (1u8..=24, 0u8..5).prop_map(|(s, l)| (s, (s + l).min(28))),
        1 => (1u8..=24, 0u8..20).prop_map(|(s, l)| (s, (s + l).min(40))),
        1 => (30u8..=60, 0u8..3).prop_map(|(s, l)| (s, s + l)),
    ]
}

pub fn gcase_strategy() -> impl Strategy<Value = GCase> {
    proptest::collection::vec(
        prop_oneof![
            10 => proptest::collection::vec(range_strategy(), 1..=3).prop_map(GOp::Insert),
            1 => Just(GOp::Reload),
        ],
        1..40,
    )
    .prop_map(|ops| GCase { ops })
}

thread_local! {
    static CONN: RefCell<Option<CrConn>> = const { RefCell::new(None) };
}

thread_local! {
    static CASE_NO: std::cell::Cell<u128> = const { std::cell::Cell::new(0) };
}

/// a fresh actor per case (cr-sqlite's own per-site version table cannot be reset)
fn next_actor() -> ActorId {
    let n = CASE_NO.with(|c| {
        c.set(c.get() + 1);
        c.get()
    });
    ActorId(Uuid::from_u128(0xC02_0000_0000 + n))
}

fn canon(known: &BTreeSet<u64>) -> Vec<(u64, u64)> {
    let max = known.iter().next_back().copied().unwrap_or(0);
    let mut out: Vec<(u64, u64)> = vec![];
    for v in 1..=max {
        if known.contains(&v) {
            continue;
        }
        match out.last_mut() {
            Some((_, e)) if *e + 1 == v => *e = v,
            _ => out.push((v, v)),
        }
    }
    out
}

pub fn check_gaps(case: &GCase, info: &mut CaseInfo) -> Result<(), Fail> {
    CONN.with(|cell| {
        let mut cell = cell.borrow_mut();
        if cell.is_none() {
            let mut conn = CrConn::init(rusqlite::Connection::open_in_memory().map_err(|e| Fail::infra(e.to_string()))?).map_err(|e| Fail::infra(e.to_string()))?;
            migrate(Arc::new(uhlc::HLC::default()), &mut conn).map_err(|e| Fail::infra(e.to_string()))?;
            *cell = Some(conn);
        }
        let conn = cell.as_ref().unwrap();
        conn.execute("DELETE FROM __corro_bookkeeping_gaps", []).map_err(|e| Fail::infra(e.to_string()))?;
        let actor = next_actor();
        let mut bv = BookedVersions::new(actor);
        let mut known: BTreeSet<u64> = BTreeSet::new();
        let (mut split, mut merged, mut far_ahead, mut reload_with_gaps) = (false, false, false, false);
        for (step, op) in case.ops.iter().enumerate() {
            info.total_ops += 1;
            match op {
                GOp::Insert(ranges) => {
                    let mut set = RangeInclusiveSet::new();
                    for (s, e) in ranges {
                        set.insert(CrsqlDbVersion(*s as u64)..=CrsqlDbVersion(*e as u64));
                    }
                    let before = canon(&known);
                    let max_before = known.iter().next_back().copied().unwrap_or(0);
                    let mut snap = bv.snapshot();
                    let r = snap.insert_db(conn, set);
                    match r {
                        Ok(()) => bv.commit_snapshot(snap),
                        Err(e) => {
                            // drain the snapshot so its Drop does not complain, then report
                            bv.commit_snapshot(snap);
                            return Err(Fail::new("recording-versions-succeeds", format!("step {step} {op:?}: insert_db failed: {e}")));
                        }
                    }
                    // the newest version of an actor is recorded by cr-sqlite itself (as applying changes /
                    // process_empty_version do); BookedVersions::from_conn reads it back from there
                    if let Some(m) = bv.last() {
                        let _: String = conn.query_row("SELECT crsql_set_db_version(?, ?)", rusqlite::params![actor, m], |r| r.get(0)).map_err(|e| Fail::infra(e.to_string()))?;
                    }
                    for (s, e) in ranges {
                        if (*s as u64) > max_before + 1 {
                            far_ahead = true;
                        }
                        for v in *s..=*e {
                            known.insert(v as u64);
                        }
                    }
                    let after = canon(&known);
                    if after.len() > before.len() && max_before > 0 && ranges.iter().any(|(s, _)| (*s as u64) <= max_before) {
                        split = true;
                    }
                    if after.len() < before.len() {
                        merged = true;
                    }
                }
                GOp::Reload => {
                    let re = BookedVersions::from_conn(conn, actor).map_err(|e| Fail::new("reload-succeeds", e.to_string()))?;
                    // (RangeInclusiveSet's PartialEq is not to be trusted with range ends: compare explicitly)
                    ensure!(crate::sim::ranges_u64(re.needed()) == crate::sim::ranges_u64(bv.needed()), "reload-equals-live", "step {step}: reloaded gaps {:?} != live {:?}", re.needed(), bv.needed());
                    ensure!(re.last() == bv.last(), "reload-equals-live", "step {step}: reloaded max {:?} != live {:?}", re.last(), bv.last());
                    if !bv.needed().is_empty() {
                        reload_with_gaps = true;
                    }
                    // carry on with the reloaded view, as a restarted node does
                    bv = re;
                }
            }
            // ---- oracle
            let want = canon(&known);
            let got: Vec<(u64, u64)> = bv.needed().iter().map(|r| (r.start().0, r.end().0)).collect();
            ensure!(got == want, "needed-is-complement-of-held", "step {step} {op:?}: needed {got:?}, model {want:?}");
            let max = known.iter().next_back().copied();
            ensure!(bv.last().map(|v| v.0) == max, "last-is-max", "step {step} {op:?}: last {:?}, model {max:?}", bv.last());
            for v in 1..=max.unwrap_or(0) + 2 {
                ensure!(bv.contains_version(&CrsqlDbVersion(v)) == known.contains(&v), "contains-version", "step {step} {op:?}: contains_version({v}) = {}", bv.contains_version(&CrsqlDbVersion(v)));
            }
            let rows: Vec<(u64, u64)> = {
                let mut st = conn.prepare_cached("SELECT start, end FROM __corro_bookkeeping_gaps WHERE actor_id = ? ORDER BY start").map_err(|e| Fail::infra(e.to_string()))?;
                let r = st.query_map([actor], |r| Ok((r.get::<_, u64>(0)?, r.get::<_, u64>(1)?))).and_then(|it| it.collect::<rusqlite::Result<Vec<_>>>()).map_err(|e| Fail::infra(e.to_string()))?;
                r
            };
            ensure!(rows == want, "persisted-gaps-equal-memory", "step {step} {op:?}: persisted gap rows {rows:?}, model {want:?}");
        }
        if split {
            info.class("insertion-splits-a-gap");
        }
        if merged {
            info.class("insertion-merges-gaps");
        }
        if far_ahead {
            info.class("insertion-beyond-max+1");
        }
        if reload_with_gaps {
            info.class("reload-with-gaps");
        }
        info.nontrivial = split && merged && far_ahead;
        Ok(())
    })
}

fn sweep(ctx: &Ctx, rep: &mut Report) {
    // all sequences of <=4 single-range insertions over versions 1..=6
    let mut ranges = vec![];
    for s in 1u8..=6 {
        for e in s..=6 {
            ranges.push((s, e));
        }
    }
    let k = ranges.len() as u64;
    let mut n = 0u64;
    for len in 1..=4u32 {
        for mut code in 0..k.pow(len) {
            let mut ops = vec![];
            for _ in 0..len {
                ops.push(GOp::Insert(vec![ranges[(code % k) as usize]]));
                code /= k;
            }
            ops.push(GOp::Reload);
            let case = GCase { ops };
            eval_enumerated(ctx, rep, "sweep-gaps", &case, check_gaps);
            n += 1;
        }
    }
    rep.sub.insert("sweep-gaps".into(), json!({"cases": n, "exhaustive": true, "scope": "all sequences of <=4 single-range insertions over versions 1..=6, each followed by a reload"}));
}

// ------------------------------------------------------------------------------------------------
// tier B

async fn run_sim(case: &c01::Case, info: &mut CaseInfo, root: std::path::PathBuf) -> Result<(), Fail> {
    let mut w = World::new(case.nodes as usize, &root).await?;
    for (i, op) in case.ops.iter().enumerate() {
        let eff = w.step(op, info).await?;
        if eff.skipped {
            continue;
        }
        for n in 0..w.n() {
            w.check_advertised(n).await.map_err(|mut f| {
                f.msg = format!("after op #{i} {op:?}: {}", f.msg);
                f
            })?;
            w.check_durable(n).await.map_err(|mut f| {
                f.msg = format!("after op #{i} {op:?}: {}", f.msg);
                f
            })?;
        }
    }
    w.quiesce(12, info).await?;
    for n in 0..w.n() {
        w.check_advertised(n).await?;
        w.check_durable(n).await?;
    }
    w.classify(info);
    let s = &w.stats;
    info.nontrivial = s.partial_deliveries > 0 && (s.complete_after_partial > 0 || s.became_covered > 0 || s.empty_answers > 0);
    Ok(())
}

pub fn check_sim(case: &c01::Case, info: &mut CaseInfo) -> Result<(), Fail> {
    with_world("c02-", |root| run_sim(case, info, root))
}

// ------------------------------------------------------------------------------------------------
// tier B, chunk-heavy: one receiver gets the versions of an origin (and a relay) as many small,
// non-adjacent, repeated seq-range chunks in separate batches (the C03 generator) - the advertised
// missing ranges and the persisted partial records must stay exact after every single chunk

async fn run_chunks(case: &crate::c03::Case, info: &mut CaseInfo, root: std::path::PathBuf) -> Result<(), Fail> {
    let mut w = World::new(3, &root).await?;
    for op in &case.prefix {
        w.step(op, info).await?;
    }
    let mut eff = crate::world::Effects::default();
    w.sync(1, 0, 0, false, true, &mut eff).await?;
    w.apply(1, true, 0, &mut eff).await?;
    for (i, op) in case.ops.iter().enumerate() {
        let eff = w.step(op, info).await?;
        if eff.skipped {
            continue;
        }
        for n in 0..w.n() {
            w.check_advertised(n).await.map_err(|mut f| {
                f.msg = format!("after receiver op #{i} {op:?} (delivered {:?}): {}", eff.delivered, f.msg);
                f
            })?;
            w.check_durable(n).await.map_err(|mut f| {
                f.msg = format!("after receiver op #{i} {op:?} (delivered {:?}): {}", eff.delivered, f.msg);
                f
            })?;
        }
    }
    w.quiesce(12, info).await?;
    for n in 0..w.n() {
        w.check_advertised(n).await?;
        w.check_durable(n).await?;
    }
    w.classify(info);
    // non-trivial: some version reached the receiver in >=2 partial chunks that are not adjacent
    let mut nt = false;
    for ((dst, _, _), ranges) in &w.chunk_log {
        if *dst == 2 && ranges.windows(2).any(|x| x[1].0 > x[0].1 + 1 || x[1].1 + 1 < x[0].0) {
            nt = true;
        }
    }
    if nt {
        info.class("non-adjacent-chunks-of-one-version");
    }
    info.nontrivial = nt;
    Ok(())
}

pub fn check_chunks(case: &crate::c03::Case, info: &mut CaseInfo) -> Result<(), Fail> {
    with_world("c02c-", |root| run_chunks(case, info, root))
}

pub fn run(ctx: &Ctx, rep: &mut Report) {
    if ctx.worker == 0 && ctx.wants("sweep") {
        sweep(ctx, rep);
    }
    let (n_gaps, n_sim, ops, n_chunks, chunk_ops) = match ctx.tier {
        Tier::Quick => (100_000, 300, 24, 300, 16),
        Tier::Thorough => (3_000_000, 10_000, 50, 10_000, 40),
    };
    run_prop(ctx, rep, "gaps", gcase_strategy(), n_gaps, 6000, check_gaps);
    run_prop(ctx, rep, "sim", c01::case_strategy(ops), n_sim, 200, check_sim);
    run_prop(ctx, rep, "chunks", crate::c03::case_strategy(chunk_ops), n_chunks, 200, check_chunks);
}

pub fn replay(sub: &str, case: &serde_json::Value) -> Result<CaseInfo, Fail> {
    if sub.starts_with("sim") {
        replay_case::<c01::Case, _>(case, check_sim)
    } else if sub.starts_with("chunks") {
        replay_case::<crate::c03::Case, _>(case, check_chunks)
    } else {
        replay_case::<GCase, _>(case, check_gaps)
    }
}
