//! C03 – a remote transaction becomes visible atomically, exactly when all chunks arrived.
//! Engine E2: origin (node 0), relay (node 1, also an origin of its own versions) and receiver (node 2).
//! The receiver gets every version as an arbitrary multiset of seq-range chunks produced by the real
//! senders (broadcast chunks, and sync answers of origin / relay to generated Full / Partial needs),
//! in any order and batching.  Oracle after every step: the receiver's tables equal a shadow replica
//! that receives a version exactly when a complete changeset was delivered, or when the union of
//! delivered chunks covers 0..=last_seq *and* the apply step ran.

use proptest::prelude::*;
use serde::{Deserialize, Serialize};

use crate::{
    c01::{hot_stmt_strategy, need_strategy, with_world},
    common::{CaseInfo, Ctx, Fail, Report, Tier, replay_case, run_prop},
    ensure,
    sim::Stmt,
    world::{Effects, Op, World, infra},
};

#[derive(Debug, Clone, Serialize, Deserialize)]
pub struct Case {
    /// transactions of the origin (node 0) and of the relay (node 1), with relay<-origin syncs between
    pub prefix: Vec<Op>,
    /// what happens at the receiver (node 2)
    pub ops: Vec<Op>,
}

fn big_tx() -> impl Strategy<Value = Vec<Stmt>> {
    // multi-row versions: 2-8 statements, biased to big payloads so that the 8 KiB chunker splits them
    proptest::collection::vec(
        prop_oneof![
            3 => hot_stmt_strategy(),
            3 => (0u8..3, 2u8..5, any::<u16>()).prop_map(|(key, size_class, tag)| Stmt::UpsertBig { key, size_class, tag }),
            1 => (2u8..6, any::<u16>()).prop_map(|(n, tag)| Stmt::MultiKv { n, tag }),
        ],
        2..8,
    )
}

fn prefix_strategy() -> impl Strategy<Value = Vec<Op>> {
    proptest::collection::vec(
        prop_oneof![
            5 => big_tx().prop_map(|stmts| Op::Tx { node: 0, stmts }),
            2 => big_tx().prop_map(|stmts| Op::Tx { node: 1, stmts }),
            2 => any::<bool>().prop_map(|batch| Op::Sync { client: 1, server: 0, drop_mask: 0, rev: false, batch }),
        ],
        2..7,
    )
}

fn receiver_op() -> impl Strategy<Value = Op> {
    prop_oneof![
        8 => (0u8..2, 0u8..2, need_strategy(), prop_oneof![3 => Just(0u8), 1 => any::<u8>()], any::<bool>())
            .prop_map(|(server, origin, need, drop_mask, batch)| Op::Fetch { client: 2, server, origin, need, drop_mask, batch }),
        4 => (proptest::collection::vec(any::<u16>(), 1..5), any::<bool>()).prop_map(|(picks, batch)| Op::Deliver { dst: 2, picks, batch }),
        3 => (any::<bool>(), any::<u8>()).prop_map(|(all, which)| Op::Apply { node: 2, all, which }),
        1 => Just(Op::Clear { node: 2 }),
        1 => (0u8..2, prop_oneof![Just(0u32), any::<u32>()], any::<bool>(), any::<bool>()).prop_map(|(server, drop_mask, rev, batch)| Op::Sync { client: 2, server, drop_mask, rev, batch }),
    ]
}

pub fn case_strategy(max_ops: usize) -> impl Strategy<Value = Case> {
    (prefix_strategy(), proptest::collection::vec(receiver_op(), 4..=max_ops)).prop_map(|(prefix, ops)| Case { prefix, ops })
}

async fn run_case(case: &Case, info: &mut CaseInfo, root: std::path::PathBuf) -> Result<(), Fail> {
    let mut w = World::new(3, &root).await?;
    for op in &case.prefix {
        w.step(op, info).await?;
        w.check_visibility(1, "prefix").await?;
    }
    // the relay ends up holding what the origin wrote (later versions may have overwritten earlier ones)
    let mut eff = Effects::default();
    w.sync(1, 0, 0, false, true, &mut eff).await?;
    w.apply(1, true, 0, &mut eff).await?;
    w.check_visibility(1, "relay caught up").await?;

    for (i, op) in case.ops.iter().enumerate() {
        let eff = w.step(op, info).await?;
        if !eff.skipped {
            w.check_visibility(2, &format!("after receiver op #{i} {op:?} (delivered {:?})", eff.delivered)).await?;
        }
    }

    // every partially received version is eventually applied or discarded once holders answered
    w.quiesce(12, info).await?;
    w.check_visibility(2, "after the missing ranges were answered").await?;
    let st = w.nodes[2].sync_state().await;
    ensure!(st.need.is_empty() && st.partial_need.is_empty(), "partial-versions-complete-once-answered", "receiver still lists need {:?} partial_need {:?} after holders answered", st.need, st.partial_need);
    // the clearing of buffered copies is asynchronous (scheduled by the apply / complete / Empty paths): run the
    // clear step until nothing is left, the verdict is taken at a ceiling only
    let t_clear = std::time::Instant::now();
    let mut left;
    loop {
        w.clear(2).await?;
        left = w.nodes[2].count("SELECT (SELECT count(*) FROM __corro_buffered_changes) + (SELECT count(*) FROM __corro_seq_bookkeeping)").await.map_err(infra)?;
        if left == 0 || t_clear.elapsed() > std::time::Duration::from_secs(10) {
            break;
        }
        tokio::time::sleep(std::time::Duration::from_millis(50)).await;
    }
    if left != 0 {
        let what = w.nodes[2].buffer_leftovers().await.map_err(infra)?;
        if std::env::var_os("KVERIF_TRACE").is_some() {
            w.nodes[2].drain_apply_now();
            eprintln!("pending_apply {:?} triggers_seen {:?}", w.nodes[2].pending_apply, w.nodes[2].triggers_seen);
        }
        return Err(Fail::new("buffered-copies-removed", format!("receiver keeps {left} buffered rows / seq records after every version was applied or cleared: {what}")));
    }
    let want = w.reference.tables().map_err(infra)?;
    let got = w.nodes[2].dump_tables().await.map_err(infra)?;
    if got != want {
        let nc = w.nodes[2].dump_cells().await.map_err(infra)?;
        let rc = w.reference.cells().map_err(infra)?;
        if std::env::var_os("KVERIF_TRACE").is_some() {
            for i in 0..3 {
                let conn = w.nodes[i].agent.pool().read().await.map_err(|e| Fail::infra(e.to_string()))?;
                let rows: Vec<String> = tokio::task::block_in_place(|| {
                    let mut st = conn.prepare(r#"SELECT "table", hex(pk), cid, substr(val,1,12), col_version, db_version, seq, hex(substr(site_id,1,3)), cl FROM crsql_changes ORDER BY 1,2,3"#).unwrap();
                    st.query_map([], |r| Ok(format!("{} {} {} {:?} cv{} dbv{} seq{} site{} cl{}", r.get::<_, String>(0)?, r.get::<_, String>(1)?, r.get::<_, String>(2)?, r.get::<_, rusqlite::types::Value>(3)?, r.get::<_, i64>(4)?, r.get::<_, i64>(5)?, r.get::<_, i64>(6)?, r.get::<_, String>(7)?, r.get::<_, i64>(8)?))).unwrap().map(|x| x.unwrap()).collect()
                });
                eprintln!("node {i} ({}) crsql_changes:\n  {}", w.nodes[i].actor(), rows.join("\n  "));
            }
        }
        let diff: Vec<String> = nc.iter().filter(|x| !rc.contains(x)).map(|x| format!("node:{x:?}")).chain(rc.iter().filter(|x| !nc.contains(x)).map(|x| format!("ref:{x:?}"))).take(8).collect();
        return Err(Fail::new(
            "same-result-as-unchunked",
            format!("receiver differs from the replica fed unchunked transactions:\n node {}\n ref  {}\n cells {diff:?}", crate::sim::tables_repr(&got), crate::sim::tables_repr(&want)),
        ));
    }

    w.classify(info);
    // non-trivial: some version reached the receiver in >=3 partial chunks with an overlap/duplicate or out of order
    let mut nt = false;
    for ((dst, _, _), ranges) in &w.chunk_log {
        if *dst != 2 || ranges.len() < 3 {
            continue;
        }
        let out_of_order = ranges.windows(2).any(|x| x[1].0 < x[0].0);
        let overlap = ranges.iter().enumerate().any(|(i, a)| ranges.iter().skip(i + 1).any(|b| a.0 <= b.1 && b.0 <= a.1));
        if out_of_order || overlap {
            nt = true;
        }
    }
    if nt {
        info.class("version-in>=3-chunks-out-of-order-or-overlapping");
    }
    info.nontrivial = nt;
    Ok(())
}

pub fn check(case: &Case, info: &mut CaseInfo) -> Result<(), Fail> {
    with_world("c03-", |root| run_case(case, info, root))
}

pub fn run(ctx: &Ctx, rep: &mut Report) {
    let (n, ops) = match ctx.tier {
        Tier::Quick => (400, 16),
        Tier::Thorough => (30_000, 40),
    };
    run_prop(ctx, rep, "chunks", case_strategy(ops), n, 200, check);
}

pub fn replay(_sub: &str, case: &serde_json::Value) -> Result<CaseInfo, Fail> {
    replay_case::<Case, _>(case, check)
}
