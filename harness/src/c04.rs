//! C04 – sync requests ask for everything the peer can give and nothing it cannot.
//! Engine E1 (pure).  Oracle: set model of both advertised states (completeness + bounds).

use std::collections::{BTreeMap, BTreeSet, HashMap};

use klukai_types::{
    actor::ActorId,
    base::{CrsqlDbVersion, CrsqlSeq},
    sync::{SyncNeedV1, SyncStateV1},
};
use proptest::prelude::*;
use serde::{Deserialize, Serialize};
use serde_json::json;
use uuid::Uuid;

use crate::{
    common::{CaseInfo, Ctx, Fail, Report, Tier, replay_case, run_prop},
    ensure,
};

/// per version: 0 = held, 1 = needed, 2.. = partial with the given set of *missing* seqs
#[derive(Debug, Clone, Serialize, Deserialize, PartialEq)]
pub enum VState {
    Held,
    Need,
    Partial { missing: Vec<u64> },
}

#[derive(Debug, Clone, Serialize, Deserialize)]
pub struct ActorSide {
    /// None = actor unknown to this side; Some(states) = versions 1..=states.len()
    pub versions: Option<Vec<VState>>,
}

#[derive(Debug, Clone, Serialize, Deserialize)]
pub struct Pair {
    /// hidden last_seq per (actor, version-1), shared by both sides
    pub last_seqs: Vec<Vec<u64>>,
    pub ours: Vec<ActorSide>,
    pub theirs: Vec<ActorSide>,
    /// head the peer advertises for *our own* actor id (0 = not advertised)
    pub their_head_for_us: u64,
    /// head we advertise for the peer's own actor id (irrelevant to the oracle, exercises the code)
    pub our_head_for_them: u64,
}

pub fn actor(i: usize) -> ActorId {
    ActorId(Uuid::from_u128(0x1000 + i as u128))
}
pub const US: usize = 900;
pub const THEM: usize = 901;

fn ranges_of(set: &BTreeSet<u64>) -> Vec<(u64, u64)> {
    let mut out: Vec<(u64, u64)> = vec![];
    for &v in set {
        match out.last_mut() {
            Some((_, e)) if *e + 1 == v => *e = v,
            _ => out.push((v, v)),
        }
    }
    out
}

fn build_state(me: usize, sides: &[ActorSide], extra: Option<(usize, u64)>) -> SyncStateV1 {
    build_state_ids(actor(me), sides, extra.map(|(who, head)| (actor(who), head)))
}

/// the same with explicit actor ids for the advertising node and the extra head (used by the `wire` sub-campaign,
/// where "we" are a real node with an actor id of its own)
pub fn build_state_ids(me: ActorId, sides: &[ActorSide], extra: Option<(ActorId, u64)>) -> SyncStateV1 {
    let mut st = SyncStateV1 { actor_id: me, ..Default::default() };
    for (i, side) in sides.iter().enumerate() {
        let Some(vs) = &side.versions else { continue };
        if vs.is_empty() {
            continue;
        }
        let a = actor(i);
        st.heads.insert(a, CrsqlDbVersion(vs.len() as u64));
        let need: BTreeSet<u64> = vs.iter().enumerate().filter(|(_, s)| **s == VState::Need).map(|(k, _)| k as u64 + 1).collect();
        if !need.is_empty() {
            st.need.insert(a, ranges_of(&need).into_iter().map(|(s, e)| CrsqlDbVersion(s)..=CrsqlDbVersion(e)).collect());
        }
        for (k, s) in vs.iter().enumerate() {
            if let VState::Partial { missing } = s {
                let set: BTreeSet<u64> = missing.iter().copied().collect();
                st.partial_need
                    .entry(a)
                    .or_default()
                    .insert(CrsqlDbVersion(k as u64 + 1), ranges_of(&set).into_iter().map(|(s, e)| CrsqlSeq(s)..=CrsqlSeq(e)).collect());
            }
        }
    }
    if let Some((who, head)) = extra {
        if head > 0 {
            st.heads.insert(who, CrsqlDbVersion(head));
        }
    }
    st
}

pub fn side_strategy(max_head: usize, last_seqs: Vec<u64>) -> impl Strategy<Value = ActorSide> {
    // class weights shift per side so that "mostly held", "mostly needed" and mixed sides all occur
    (0usize..=max_head, any::<u8>(), proptest::collection::vec((any::<u8>(), any::<u16>()), max_head), prop_oneof![1 => Just(true), 6 => Just(false)])
        .prop_map(move |(head, bias, picks, unknown)| {
            if unknown || head == 0 {
                return ActorSide { versions: None };
            }
            let mut vs = vec![];
            for k in 0..head {
                let (p, mask) = picks[k];
                let p = (p as u16 + bias as u16 / 4) % 256;
                let last = last_seqs[k];
                let st = if p < 120 {
                    VState::Held
                } else if p < 190 || last == 0 {
                    VState::Need
                } else {
                    // missing set: non-empty proper subset of 0..=last
                    let n = last + 1;
                    let full = (1u32 << n) - 1;
                    let mut m = (mask as u32) & full;
                    if m == 0 {
                        m = 1 << (mask as u64 % n);
                    }
                    if m == full {
                        m &= !(1 << ((mask as u64 / 7) % n));
                    }
                    VState::Partial { missing: (0..n).filter(|s| m & (1 << s) != 0).collect() }
                };
                vs.push(st);
            }
            // the newest version of an advertised head is never "needed": head == last version seen
            if let Some(l) = vs.last_mut() {
                if *l == VState::Need {
                    *l = VState::Held;
                }
            }
            ActorSide { versions: Some(vs) }
        })
}

pub fn pair_strategy() -> impl Strategy<Value = Pair> {
    (1usize..=4)
        .prop_flat_map(|n| proptest::collection::vec(proptest::collection::vec(prop_oneof![Just(0u64), 1u64..=3, 1u64..=9], 16), n))
        .prop_flat_map(|last_seqs| {
            let ours: Vec<_> = last_seqs.iter().map(|l| side_strategy(16, l.clone())).collect();
            let theirs: Vec<_> = last_seqs.iter().map(|l| side_strategy(16, l.clone())).collect();
            (Just(last_seqs), ours, theirs, prop_oneof![Just(0u64), 1u64..20], prop_oneof![Just(0u64), 1u64..20])
        })
        .prop_map(|(last_seqs, ours, theirs, their_head_for_us, our_head_for_them)| Pair { last_seqs, ours, theirs, their_head_for_us, our_head_for_them })
}

pub fn check_pair(p: &Pair, info: &mut CaseInfo) -> Result<(), Fail> {
    let ours = build_state(US, &p.ours, Some((THEM, p.our_head_for_them)));
    let theirs = build_state(THEM, &p.theirs, Some((US, p.their_head_for_us)));
    let needs: HashMap<ActorId, Vec<SyncNeedV1>> = ours.compute_available_needs(&theirs);

    // ---- bounds
    for (a, ns) in &needs {
        ensure!(*a != actor(US), "never-own-actor", "requested versions of our own actor id: {ns:?}");
        let head = theirs.heads.get(a);
        ensure!(head.is_some(), "only-advertised-actors", "requested actor {a} the peer does not advertise");
        let head = head.unwrap().0;
        for n in ns {
            match n {
                SyncNeedV1::Full { versions } => {
                    ensure!(versions.start() <= versions.end(), "full-nonempty", "inverted {versions:?}");
                    ensure!(versions.start().0 >= 1, "full-from-1", "requests version 0: {versions:?}");
                    ensure!(versions.end().0 <= head, "within-head", "Full {versions:?} beyond peer head {head}");
                }
                SyncNeedV1::Partial { version, seqs } => {
                    ensure!(version.0 <= head && version.0 >= 1, "within-head", "Partial v{} beyond peer head {head}", version.0);
                    ensure!(!seqs.is_empty(), "partial-nonempty", "Partial v{} with no seqs", version.0);
                    for r in seqs {
                        ensure!(r.start() <= r.end(), "partial-range-nonempty", "inverted {r:?}");
                    }
                }
                SyncNeedV1::Empty { .. } => {
                    return Err(Fail::new("no-empty-needs", "compute_available_needs produced an Empty need"));
                }
            }
        }
    }

    // ---- completeness (and partial requests inside what we miss)
    let mut both_gaps = false;
    let mut partial_both_diff = false;
    for (i, tside) in p.theirs.iter().enumerate() {
        let Some(tvs) = &tside.versions else { continue };
        let a = actor(i);
        let reqs = needs.get(&a).cloned().unwrap_or_default();
        let full_cover = |v: u64| reqs.iter().any(|n| matches!(n, SyncNeedV1::Full { versions } if versions.start().0 <= v && v <= versions.end().0));
        let partial_cover = |v: u64, s: u64| {
            reqs.iter().any(|n| matches!(n, SyncNeedV1::Partial { version, seqs } if version.0 == v && seqs.iter().any(|r| r.start().0 <= s && s <= r.end().0)))
        };
        let ovs = p.ours[i].versions.clone();
        let our_head = ovs.as_ref().map(|v| v.len() as u64).unwrap_or(0);
        if tvs.iter().any(|s| *s != VState::Held) && ovs.as_ref().map(|o| o.iter().any(|s| *s != VState::Held)).unwrap_or(false) {
            both_gaps = true;
        }
        for (k, ts) in tvs.iter().enumerate() {
            let v = k as u64 + 1;
            let os = if v <= our_head { Some(&ovs.as_ref().unwrap()[k]) } else { None };
            match (os, ts) {
                // we lack it entirely, peer holds it fully
                (None, VState::Held) | (Some(VState::Need), VState::Held) => {
                    ensure!(full_cover(v), "complete-full", "actor#{i} v{v}: peer holds it, we lack it, not requested; requests: {reqs:?}");
                }
                (Some(VState::Partial { missing }), VState::Held) => {
                    for s in missing {
                        ensure!(
                            partial_cover(v, *s) || full_cover(v),
                            "complete-partial",
                            "actor#{i} v{v} seq {s}: peer holds the version, we miss the seq, not requested; requests: {reqs:?}"
                        );
                    }
                }
                (Some(VState::Partial { missing }), VState::Partial { missing: tm }) => {
                    if missing != tm {
                        partial_both_diff = true;
                    }
                    for s in missing {
                        if !tm.contains(s) {
                            ensure!(
                                partial_cover(v, *s) || full_cover(v),
                                "complete-partial-partial",
                                "actor#{i} v{v} seq {s}: peer has the seq buffered, we miss it, not requested; requests: {reqs:?}"
                            );
                        }
                    }
                }
                _ => {}
            }
        }
        // partial requests only for seqs we miss
        for n in &reqs {
            if let SyncNeedV1::Partial { version, seqs } = n {
                let v = version.0;
                let our = if v <= our_head { Some(&ovs.as_ref().unwrap()[(v - 1) as usize]) } else { None };
                match our {
                    Some(VState::Partial { missing }) => {
                        for r in seqs {
                            for s in r.start().0..=r.end().0 {
                                ensure!(missing.contains(&s), "partial-inside-missing", "actor#{i} v{v}: requested seq {s} which we already hold; ours missing {missing:?}");
                            }
                        }
                    }
                    other => {
                        return Err(Fail::new("partial-only-for-partials", format!("actor#{i} v{v}: Partial request but our state is {other:?}")));
                    }
                }
            }
        }
    }
    if both_gaps {
        info.class("both-sides-have-gaps");
    }
    if partial_both_diff {
        info.class("partial-on-both-sides-different");
    }
    if p.their_head_for_us > 0 {
        info.class("peer-advertises-our-actor");
    }
    if p.ours.iter().zip(p.theirs.iter()).any(|(o, t)| o.versions.is_none() != t.versions.is_none()) {
        info.class("actor-known-to-one-side");
    }
    info.nontrivial = both_gaps && partial_both_diff;
    Ok(())
}

fn sweep(ctx: &Ctx, rep: &mut Report) {
    // one actor, heads <= 3 on both sides, per version: Held / Need / Partial(last_seq=2, any proper non-empty missing set)
    let mut states: Vec<VState> = vec![VState::Held, VState::Need];
    for m in 1u32..7 {
        states.push(VState::Partial { missing: (0..3).filter(|s| m & (1 << s) != 0).collect() });
    }
    let mut sides: Vec<ActorSide> = vec![ActorSide { versions: None }];
    for head in 1..=3usize {
        let mut idx = vec![0usize; head];
        loop {
            let vs: Vec<VState> = idx.iter().map(|i| states[*i].clone()).collect();
            if vs.last() != Some(&VState::Need) {
                sides.push(ActorSide { versions: Some(vs) });
            }
            let mut k = 0;
            loop {
                if k == head {
                    break;
                }
                idx[k] += 1;
                if idx[k] < states.len() {
                    break;
                }
                idx[k] = 0;
                k += 1;
            }
            if k == head {
                break;
            }
        }
    }
    let mut n = 0u64;
    for o in &sides {
        for t in &sides {
            for us in [0u64, 2] {
                let case = Pair { last_seqs: vec![vec![2; 16]], ours: vec![o.clone()], theirs: vec![t.clone()], their_head_for_us: us, our_head_for_them: 0 };
                crate::common::eval_enumerated(ctx, rep, "sweep", &case, check_pair);
                n += 1;
            }
        }
    }
    rep.sub.insert("sweep".into(), json!({"cases": n, "exhaustive": true, "scope": "1 actor, heads<=3 both sides, per version Held/Need/Partial(last_seq=2, every proper missing set)"}));
}

pub fn run(ctx: &Ctx, rep: &mut Report) {
    if ctx.worker == 0 && ctx.wants("sweep") {
        sweep(ctx, rep);
    }
    let n = match ctx.tier {
        Tier::Quick => 200_000,
        Tier::Thorough => 5_000_000,
    };
    run_prop(ctx, rep, "pairs", pair_strategy(), n, 6000, check_pair);
    crate::c04b::run(ctx, rep);
}

pub fn replay(sub: &str, case: &serde_json::Value) -> Result<CaseInfo, Fail> {
    if sub.starts_with("wire") {
        return crate::c04b::replay(case);
    }
    replay_case::<Pair, _>(case, check_pair)
}

#[allow(dead_code)]
pub fn _unused(_: BTreeMap<u8, u8>) {}
