//! C04, sub-campaign `wire` – the request messages the real `parallel_sync` puts on the wire.
//!
//! `compute_available_needs` (sub-campaigns `sweep` / `pairs`) is only half of what decides which versions a node
//! asks a peer for: `parallel_sync` cuts every `Full` need into blocks of ten versions, hands the blocks out to the
//! servers of the round ten at a time, and drops what it already asked another server of the same round for.  Here
//! the node is a real `setup()` node with a real `Transport`; 1-3 servers are played by the harness on real QUIC
//! endpoints (`gossip_server_endpoint`): they answer the handshake with a *generated* sync state and record every
//! `Request` frame until the client finishes the stream.  The client's own state is generated as well
//! (`parallel_sync` takes it as an argument).
//!
//! Oracle (set model of all states, independent of `compute_available_needs`):
//!  * bounds, per server: only actors that server advertises, never our own actor id, versions 1..=its head, partial
//!    requests only for versions we hold partially and only for sequences we miss;
//!  * completeness: every version we lack entirely and some server of the round holds is requested from a server
//!    that could be asked for it (it holds it, or the version is above our head and within that server's head - the
//!    relaxation described for `pairs`); every sequence we miss of a partial version that some server has is
//!    requested from a server that has it.  With one server this is the statement itself; with several it is the
//!    statement modulo the client's de-duplication across the servers of one round.

use std::{
    collections::{BTreeMap, BTreeSet},
    net::SocketAddr,
    time::Duration,
};

use bytes::{Bytes, BytesMut};
use futures::StreamExt;
use klukai_agent::{
    api::peer::{gossip_server_endpoint, parallel_sync, read_sync_msg},
    transport::Transport,
};
use klukai_types::{
    actor::ActorId,
    broadcast::{BiPayload, BiPayloadV1},
    sync::{SyncMessage, SyncMessageV1, SyncNeedV1, SyncStateV1},
};
use proptest::prelude::*;
use serde::{Deserialize, Serialize};
use speedy::{Readable, Writable};
use tokio::io::AsyncWriteExt;
use tokio_util::codec::{Encoder, FramedRead, LengthDelimitedCodec};

use crate::{
    c01::with_world,
    c04::{ActorSide, THEM, VState, actor, build_state_ids, side_strategy},
    common::{CaseInfo, Ctx, Fail, Report, Tier, replay_case, run_prop},
    ensure,
    sim::{SimNode, node_config},
};

pub const MAX_HEAD: usize = 45;

#[derive(Debug, Clone, Serialize, Deserialize)]
pub struct Server {
    pub theirs: Vec<ActorSide>,
    /// head this server advertises for *our own* actor id (0 = not advertised)
    pub head_for_us: u64,
}

#[derive(Debug, Clone, Serialize, Deserialize)]
pub struct WireCase {
    /// hidden last_seq per (actor, version-1), shared by all sides
    pub last_seqs: Vec<Vec<u64>>,
    pub ours: Vec<ActorSide>,
    pub servers: Vec<Server>,
}

pub fn case_strategy() -> impl Strategy<Value = WireCase> {
    (1usize..=3, 1usize..=3)
        .prop_flat_map(|(n, k)| (proptest::collection::vec(proptest::collection::vec(prop_oneof![Just(0u64), 1u64..=3, 1u64..=9], MAX_HEAD), n), Just(k)))
        .prop_flat_map(|(last_seqs, k)| {
            let ours: Vec<_> = last_seqs.iter().map(|l| side_strategy(MAX_HEAD, l.clone())).collect();
            let servers: Vec<_> = (0..k)
                .map(|_| {
                    let theirs: Vec<_> = last_seqs.iter().map(|l| side_strategy(MAX_HEAD, l.clone())).collect();
                    (theirs, prop_oneof![Just(0u64), 1u64..20]).prop_map(|(theirs, head_for_us)| Server { theirs, head_for_us })
                })
                .collect();
            (Just(last_seqs), ours, servers)
        })
        .prop_map(|(last_seqs, ours, servers)| WireCase { last_seqs, ours, servers })
}

fn codec() -> LengthDelimitedCodec {
    LengthDelimitedCodec::builder().max_frame_length(100 * 1_024 * 1_024).new_codec()
}

fn frame(msg: &SyncMessage) -> Result<Bytes, String> {
    let raw = msg.write_to_vec().map_err(|e| e.to_string())?;
    let mut out = BytesMut::new();
    codec().encode(Bytes::from(raw), &mut out).map_err(|e| e.to_string())?;
    Ok(out.freeze())
}

type Requests = Vec<(ActorId, Vec<SyncNeedV1>)>;

/// one sync session of a harness-played server: handshake with the given state, then record requests
async fn serve_one(endpoint: quinn::Endpoint, state: SyncStateV1, clock: SyncMessage, client: ActorId) -> Result<Requests, String> {
    let incoming = endpoint.accept().await.ok_or_else(|| "endpoint closed".to_string())?;
    let conn = incoming.await.map_err(|e| format!("accept: {e}"))?;
    let (mut tx, rx) = conn.accept_bi().await.map_err(|e| format!("accept_bi: {e}"))?;
    let mut read = FramedRead::new(rx, codec());
    let first = read.next().await.ok_or_else(|| "stream ended before the start frame".to_string())?.map_err(|e| format!("start frame: {e}"))?;
    match BiPayload::read_from_buffer(&first) {
        Ok(BiPayload::V1 { data: BiPayloadV1::SyncStart { actor_id, .. }, .. }) if actor_id == client => {}
        other => return Err(format!("unexpected start frame {other:?}")),
    }
    match read_sync_msg(&mut read).await {
        Ok(Some(SyncMessage::V1(SyncMessageV1::Clock(_)))) => {}
        other => return Err(format!("expected the client's clock, got {other:?}")),
    }
    tx.write_all(&frame(&SyncMessage::V1(SyncMessageV1::State(state)))?).await.map_err(|e| format!("write state: {e}"))?;
    tx.write_all(&frame(&clock)?).await.map_err(|e| format!("write clock: {e}"))?;
    tx.flush().await.map_err(|e| format!("flush: {e}"))?;
    let mut got: Requests = vec![];
    loop {
        match read_sync_msg(&mut read).await {
            Ok(Some(SyncMessage::V1(SyncMessageV1::Request(reqs)))) => got.extend(reqs),
            Ok(Some(other)) => return Err(format!("unexpected message from the client: {other:?}")),
            // finished, or dropped by a client that wants nothing from this server
            Ok(None) | Err(_) => break,
        }
    }
    let _ = tx.finish();
    let _ = tokio::time::timeout(Duration::from_secs(5), tx.stopped()).await;
    Ok(got)
}

#[derive(Clone, Copy, PartialEq, Debug)]
enum Ours<'a> {
    Above,
    Need,
    Held,
    Partial(&'a [u64]),
}

fn our_class<'a>(ours: &'a [ActorSide], i: usize, v: u64) -> Ours<'a> {
    match &ours[i].versions {
        Some(vs) if (v as usize) <= vs.len() => match &vs[v as usize - 1] {
            VState::Held => Ours::Held,
            VState::Need => Ours::Need,
            VState::Partial { missing } => Ours::Partial(missing),
        },
        _ => Ours::Above,
    }
}

pub fn judge(case: &WireCase, me: ActorId, states: &[SyncStateV1], got: &[Requests], info: &mut CaseInfo) -> Result<(), Fail> {
    let n = case.last_seqs.len();
    let index_of: BTreeMap<ActorId, usize> = (0..n).map(|i| (actor(i), i)).collect();
    // ---- bounds, and what was requested from whom
    let mut full_req: BTreeMap<(usize, u64), BTreeSet<usize>> = BTreeMap::new();
    let mut seq_req: BTreeMap<(usize, u64, u64), BTreeSet<usize>> = BTreeMap::new();
    let mut blocks_per_server_actor: BTreeMap<(usize, usize), usize> = BTreeMap::new();
    for (j, reqs) in got.iter().enumerate() {
        for (a, needs) in reqs {
            ensure!(*a != me, "never-own-actor", "server#{j} was asked for versions of our own actor id: {needs:?}");
            let head = states[j].heads.get(a).map(|h| h.0);
            ensure!(head.is_some(), "only-advertised-actors", "server#{j} was asked for actor {a} which it does not advertise: {needs:?}");
            let head = head.unwrap();
            let Some(&i) = index_of.get(a) else {
                return Err(Fail::new("only-advertised-actors", format!("server#{j} was asked for an actor nobody mentioned: {a}")));
            };
            for need in needs {
                match need {
                    SyncNeedV1::Full { versions } => {
                        ensure!(versions.start() <= versions.end(), "full-nonempty", "server#{j} actor#{i}: inverted {versions:?}");
                        ensure!(versions.start().0 >= 1, "full-from-1", "server#{j} actor#{i}: requests version 0: {versions:?}");
                        ensure!(versions.end().0 <= head, "within-head", "server#{j} actor#{i}: Full {versions:?} beyond the head {head} it advertised");
                        *blocks_per_server_actor.entry((j, i)).or_default() += 1;
                        for v in versions.start().0..=versions.end().0 {
                            full_req.entry((i, v)).or_default().insert(j);
                        }
                    }
                    SyncNeedV1::Partial { version, seqs } => {
                        let v = version.0;
                        ensure!(v >= 1 && v <= head, "within-head", "server#{j} actor#{i}: Partial v{v} beyond the head {head} it advertised");
                        ensure!(!seqs.is_empty(), "partial-nonempty", "server#{j} actor#{i}: Partial v{v} with no seqs");
                        let Ours::Partial(missing) = our_class(&case.ours, i, v) else {
                            return Err(Fail::new("partial-only-for-partials", format!("server#{j} actor#{i} v{v}: Partial request but our state is {:?}", our_class(&case.ours, i, v))));
                        };
                        for r in seqs {
                            ensure!(r.start() <= r.end(), "partial-range-nonempty", "server#{j} actor#{i} v{v}: inverted {r:?}");
                            for s in r.start().0..=r.end().0 {
                                ensure!(missing.contains(&s), "partial-inside-missing", "server#{j} actor#{i} v{v}: requested seq {s} which we already hold; ours missing {missing:?}");
                                seq_req.entry((i, v, s)).or_default().insert(j);
                            }
                        }
                    }
                    SyncNeedV1::Empty { .. } => return Err(Fail::new("no-empty-needs", format!("server#{j} was sent an Empty need"))),
                }
            }
        }
    }
    // ---- completeness
    let theirs = |j: usize, i: usize, v: u64| -> Option<&VState> {
        case.servers[j].theirs[i].versions.as_ref().and_then(|vs| vs.get(v as usize - 1))
    };
    let mut choice = false;
    let mut partial_served = false;
    for i in 0..n {
        for v in 1..=MAX_HEAD as u64 {
            let oc = our_class(&case.ours, i, v);
            match oc {
                Ours::Held => {}
                Ours::Above | Ours::Need => {
                    let holders: Vec<usize> = (0..case.servers.len()).filter(|&j| theirs(j, i, v) == Some(&VState::Held)).collect();
                    // servers that may be asked for it: holders, and - above our head - every server whose head reaches it
                    let cands: Vec<usize> = (0..case.servers.len()).filter(|&j| match theirs(j, i, v) {
                        None => false,
                        Some(VState::Held) => true,
                        Some(_) => oc == Ours::Above,
                    }).collect();
                    if holders.is_empty() {
                        continue;
                    }
                    if cands.len() > 1 {
                        choice = true;
                    }
                    let asked = full_req.get(&(i, v)).cloned().unwrap_or_default();
                    ensure!(
                        asked.iter().any(|j| cands.contains(j)),
                        "complete-full",
                        "actor#{i} v{v}: we lack it ({oc:?}), server(s) {holders:?} hold it, but it was requested from {asked:?} only (askable: {cands:?}); requests per server: {got:?}"
                    );
                }
                Ours::Partial(missing) => {
                    for s in missing {
                        let have: Vec<usize> = (0..case.servers.len()).filter(|&j| match theirs(j, i, v) {
                            Some(VState::Held) => true,
                            Some(VState::Partial { missing: tm }) => !tm.contains(s),
                            _ => false,
                        }).collect();
                        if have.is_empty() {
                            continue;
                        }
                        partial_served = true;
                        if have.len() > 1 {
                            choice = true;
                        }
                        let mut asked = seq_req.get(&(i, v, *s)).cloned().unwrap_or_default();
                        asked.extend(full_req.get(&(i, v)).cloned().unwrap_or_default());
                        ensure!(
                            asked.iter().any(|j| have.contains(j)),
                            "complete-partial",
                            "actor#{i} v{v} seq {s}: we miss it, server(s) {have:?} have it, but it was requested from {asked:?} only; requests per server: {got:?}"
                        );
                    }
                }
            }
        }
    }
    let chunked = blocks_per_server_actor.values().any(|b| *b > 1);
    let twice = full_req.values().any(|s| s.len() > 1) || seq_req.values().any(|s| s.len() > 1);
    if case.servers.len() == 1 {
        info.class("single-server");
    } else {
        info.class("several-servers");
    }
    if chunked {
        info.class("full-need-cut-into-blocks");
    }
    if choice {
        info.class("several-servers-could-be-asked");
    }
    if twice {
        info.class("something-requested-from-two-servers");
    }
    if partial_served {
        info.class("missing-seqs-available");
    }
    if got.iter().any(|r| r.is_empty()) {
        info.class("a-server-is-asked-nothing");
    }
    info.total_ops += got.iter().map(|r| r.len() as u64).sum::<u64>();
    info.nontrivial = case.servers.len() > 1 && chunked && choice && partial_served;
    Ok(())
}

async fn run_case(case: &WireCase, info: &mut CaseInfo, root: std::path::PathBuf) -> Result<(), Fail> {
    let t0 = std::time::Instant::now();
    let node = SimNode::new(0, root.join("n")).await.map_err(|e| Fail::infra(e.0))?;
    let t_node = t0.elapsed();
    let me = node.agent.actor_id();
    let (rtt_tx, _rtt_rx) = tokio::sync::mpsc::channel(1024);
    let gconf = node_config(&root.join("h")).gossip;
    let transport = Transport::new(&gconf, rtt_tx).await.map_err(|e| Fail::infra(format!("transport: {e}")))?;

    let ours = build_state_ids(me, &case.ours, None);
    let mut endpoints = vec![];
    let mut members: Vec<(ActorId, SocketAddr)> = vec![];
    let mut states = vec![];
    let mut tasks = vec![];
    for (j, s) in case.servers.iter().enumerate() {
        let ep = gossip_server_endpoint(&gconf).await.map_err(|e| Fail::infra(format!("server endpoint: {e}")))?;
        let addr = ep.local_addr().map_err(|e| Fail::infra(e.to_string()))?;
        let sid = actor(THEM + j);
        let st = build_state_ids(sid, &s.theirs, Some((me, s.head_for_us)));
        let clock = SyncMessage::V1(SyncMessageV1::Clock(node.agent.clock().new_timestamp().into()));
        tasks.push(tokio::spawn(serve_one(ep.clone(), st.clone(), clock, me)));
        endpoints.push(ep);
        members.push((sid, addr));
        states.push(st);
    }
    let t_setup = t0.elapsed();
    let res = tokio::time::timeout(Duration::from_secs(20), parallel_sync(&node.agent, &transport, members, ours)).await;
    match res {
        Err(_) => return Err(Fail::infra("parallel_sync did not return within 20 s")),
        Ok(Err(e)) => return Err(Fail::infra(format!("parallel_sync: {e}"))),
        Ok(Ok(_)) => {}
    }
    let mut got: Vec<Requests> = vec![];
    for (j, t) in tasks.into_iter().enumerate() {
        match tokio::time::timeout(Duration::from_secs(10), t).await {
            Err(_) => return Err(Fail::infra(format!("server#{j}: the client never finished its request stream"))),
            Ok(Err(e)) => return Err(Fail::infra(format!("server#{j} task: {e}"))),
            Ok(Ok(Err(e))) => return Err(Fail::infra(format!("server#{j}: {e}"))),
            Ok(Ok(Ok(r))) => got.push(r),
        }
    }
    if std::env::var_os("KVERIF_TIMING").is_some() {
        eprintln!("c04 wire: node {t_node:?} setup {t_setup:?} total {:?}", t0.elapsed());
    }
    let verdict = judge(case, me, &states, &got, info);
    drop(transport);
    for ep in endpoints {
        ep.close(0u32.into(), b"done");
    }
    verdict
}

pub fn check(case: &WireCase, info: &mut CaseInfo) -> Result<(), Fail> {
    with_world("c04w-", |root| run_case(case, info, root))
}

pub fn run(ctx: &Ctx, rep: &mut Report) {
    let n = match ctx.tier {
        Tier::Quick => 800,
        Tier::Thorough => 24_000,
    };
    run_prop(ctx, rep, "wire", case_strategy(), n, 300, check);
}

pub fn replay(case: &serde_json::Value) -> Result<CaseInfo, Fail> {
    replay_case::<WireCase, _>(case, check)
}
