//! C05 – a sync server only sends what it holds and never declares unknown versions empty.
//! Engine E2: server states are *reached* by a generated history (applied, overwritten, cleared,
//! partially buffered incl. chunks without live changes, fully buffered but unapplied, missing);
//! then generated Full / Partial needs within the advertised heads are answered through the real
//! process_sync / handle_need and compared with the harness model and the server's own crsql_changes.

use proptest::prelude::*;
use serde::{Deserialize, Serialize};

use crate::{
    c01::{need_strategy, op_strategy, with_world},
    common::{CaseInfo, Ctx, Fail, Report, Tier, replay_case, run_prop},
    world::{NeedSpec, Op, World},
};

#[derive(Debug, Clone, Serialize, Deserialize)]
pub struct Case {
    pub nodes: u8,
    pub history: Vec<Op>,
    pub needs: Vec<(u8, u8, NeedSpec)>,
}

pub fn case_strategy(max_ops: usize) -> impl Strategy<Value = Case> {
    // histories that leave gaps and partials behind: many transactions, single deliveries and partial
    // fetches, (almost) no full sync sessions
    let partial_fetch = (0u8..3, 0u8..3, 0u8..3, (any::<u8>(), proptest::collection::vec((any::<u8>(), any::<u8>()), 1..3)).prop_map(|(ver, ranges)| NeedSpec::Partial { ver, ranges }), any::<bool>())
        .prop_map(|(client, server, origin, need, batch)| Op::Fetch { client, server, origin, need, drop_mask: 0, batch });
    let hist_op = prop_oneof![
        4 => op_strategy(10, 4, 0, 1, 1, 1),
        3 => partial_fetch,
        1 => op_strategy(1, 1, 1, 1, 1, 1),
    ];
    (2u8..=3, proptest::collection::vec(hist_op, 8..=max_ops), proptest::collection::vec((0u8..3, 0u8..3, need_strategy()), 5..20)).prop_map(|(nodes, history, needs)| Case { nodes, history, needs })
}

async fn run_case(case: &Case, info: &mut CaseInfo, root: std::path::PathBuf) -> Result<(), Fail> {
    let mut w = World::new(case.nodes as usize, &root).await?;
    for op in &case.history {
        w.step(op, info).await?;
    }
    let n = w.n();
    let mut asked = 0;
    for (server, origin, spec) in &case.needs {
        let (server, origin) = (*server as usize % n, *origin as usize % n);
        let Some(need) = w.need_from_spec(server, origin, spec) else {
            info.skipped_ops += 1;
            continue;
        };
        asked += 1;
        w.check_serve(server, origin, need.clone(), info).await.map_err(|mut f| {
            f.msg = format!("server {server} asked {need:?} about node {origin}: {}", f.msg);
            f
        })?;
    }
    info.total_ops += case.needs.len() as u64;
    w.classify(info);
    if asked == 0 {
        info.nontrivial = false;
    }
    Ok(())
}

pub fn check(case: &Case, info: &mut CaseInfo) -> Result<(), Fail> {
    with_world("c05-", |root| run_case(case, info, root))
}

// ------------------------------------------------------------------------------------------------
// racing tier: a commit on the server interleaves with an open sync session (harness-owned schedule)

#[derive(Debug, Clone, Serialize, Deserialize)]
pub struct RaceCase {
    pub nodes: u8,
    pub history: Vec<Op>,
    /// (server, origin, from, pause_after, picks delivered to the server mid-session)
    pub sessions: Vec<(u8, u8, u8, u8, Vec<u16>)>,
}

pub fn race_strategy(max_ops: usize) -> impl Strategy<Value = RaceCase> {
    (
        2u8..=3,
        proptest::collection::vec(prop_oneof![5 => op_strategy(10, 4, 0, 1, 1, 1), 1 => op_strategy(1, 1, 1, 1, 1, 1)], 8..=max_ops),
        proptest::collection::vec((0u8..3, 0u8..3, any::<u8>(), 1u8..4, proptest::collection::vec(any::<u16>(), 1..6)), 3..10),
    )
        .prop_map(|(nodes, history, sessions)| RaceCase { nodes, history, sessions })
}

async fn run_race(case: &RaceCase, info: &mut CaseInfo, root: std::path::PathBuf) -> Result<(), Fail> {
    let mut w = World::new(case.nodes as usize, &root).await?;
    for op in &case.history {
        w.step(op, info).await?;
    }
    let n = w.n();
    for (server, origin, from, pause_after, picks) in &case.sessions {
        let (server, origin) = (*server as usize % n, *origin as usize % n);
        // a wide Full need (several answers, so that the session is still open when the commit happens)
        let Some(need) = w.need_from_spec(server, origin, &NeedSpec::Full { from: *from, len: 5 }) else {
            info.skipped_ops += 1;
            continue;
        };
        let ids: Vec<usize> = if w.pool.is_empty() { vec![] } else { picks.iter().map(|p| crate::common::idx(*p, w.pool.len())).collect() };
        w.check_serve_racing(server, origin, need.clone(), *pause_after as usize, &ids, info).await.map_err(|mut f| {
            f.msg = format!("server {server} asked {need:?} about node {origin}: {}", f.msg);
            f
        })?;
    }
    info.total_ops += case.sessions.len() as u64;
    Ok(())
}

/// directed racing scenario: the origin wrote n versions, the server (a relay) holds all but some of
/// them (optionally a partial chunk of a missing one); while it answers Full{1..=n} and is blocked on
/// the client (answer channel of capacity 1, `pause_after` answers read), the missing versions arrive
/// and commit; then the client drains the rest
#[derive(Debug, Clone, Serialize, Deserialize)]
pub struct GapRace {
    pub txs: Vec<Vec<crate::sim::Stmt>>,
    /// bit i set = version i+1 is withheld from the server before the session
    pub withheld: u16,
    /// give the server a partial chunk (seq 0..=0) of the first withheld version beforehand
    pub partial_first: bool,
    pub pause_after: u8,
}

pub fn gap_race_strategy() -> impl Strategy<Value = GapRace> {
    (proptest::collection::vec(proptest::collection::vec(crate::c07::stmt_strategy(), 1..4), 4..9), 1u16..255, any::<bool>(), 1u8..4)
        .prop_map(|(txs, withheld, partial_first, pause_after)| GapRace { txs, withheld, partial_first, pause_after })
}

async fn run_gap_race(case: &GapRace, info: &mut CaseInfo, root: std::path::PathBuf) -> Result<(), Fail> {
    let mut w = World::new(2, &root).await?;
    let mut version_ids: Vec<(u64, Vec<usize>)> = vec![];
    for stmts in &case.txs {
        let before = w.pool.len();
        if let Some(v) = w.tx(0, stmts).await? {
            version_ids.push((v, (before..w.pool.len()).collect()));
        }
    }
    if version_ids.len() < 3 {
        info.skipped_ops += 1;
        return Ok(());
    }
    let n = version_ids.len() as u64;
    let mut withheld: Vec<usize> = vec![];
    let mut eff = crate::world::Effects::default();
    for (i, (_, ids)) in version_ids.iter().enumerate() {
        // never withhold the newest version: the need must stay within the advertised head
        if case.withheld & (1 << i) != 0 && (i as u64) < n - 1 {
            withheld.extend(ids.iter().copied());
        } else {
            w.deliver_msgs(1, ids, false, &mut eff).await?;
        }
    }
    if withheld.is_empty() {
        info.skipped_ops += 1;
        return Ok(());
    }
    if case.partial_first {
        let first_v = version_ids.iter().find(|(_, ids)| ids.iter().any(|i| withheld.contains(i))).map(|x| x.0).unwrap();
        let a = w.actor(0);
        let ids = w
            .serve(0, vec![(a, vec![klukai_types::sync::SyncNeedV1::Partial { version: klukai_types::base::CrsqlDbVersion(first_v), seqs: vec![klukai_types::base::CrsqlSeq(0)..=klukai_types::base::CrsqlSeq(0)] }])])
            .await?;
        w.deliver_msgs(1, &ids, false, &mut eff).await?;
        info.class("withheld-version-partially-buffered");
    }
    let need = klukai_types::sync::SyncNeedV1::Full { versions: klukai_types::base::CrsqlDbVersion(1)..=klukai_types::base::CrsqlDbVersion(n) };
    w.check_serve_racing(1, 0, need, case.pause_after as usize, &withheld, info).await?;
    info.total_ops += 1;
    Ok(())
}

pub fn check_gap_race(case: &GapRace, info: &mut CaseInfo) -> Result<(), Fail> {
    with_world("c05g-", |root| run_gap_race(case, info, root))
}

pub fn check_race(case: &RaceCase, info: &mut CaseInfo) -> Result<(), Fail> {
    with_world("c05r-", |root| run_race(case, info, root))
}

pub fn run(ctx: &Ctx, rep: &mut Report) {
    let (n, ops, n_race) = match ctx.tier {
        Tier::Quick => (800, 22, 400),
        Tier::Thorough => (20_000, 50, 10_000),
    };
    run_prop(ctx, rep, "needs", case_strategy(ops), n, 200, check);
    run_prop(ctx, rep, "racing", race_strategy(ops), n_race, 200, check_race);
    run_prop(ctx, rep, "gap-race", gap_race_strategy(), n_race, 200, check_gap_race);
}

pub fn replay(sub: &str, case: &serde_json::Value) -> Result<CaseInfo, Fail> {
    if sub.starts_with("racing") {
        replay_case::<RaceCase, _>(case, check_race)
    } else if sub.starts_with("gap-race") {
        replay_case::<GapRace, _>(case, check_gap_race)
    } else {
        replay_case::<Case, _>(case, check)
    }
}
