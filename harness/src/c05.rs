//! C05 – a sync server only sends what it holds and never declares unknown versions empty.
//! Engine E2: server states are *reached* by a generated history (applied, overwritten, cleared,
//! partially buffered incl. chunks without live changes, fully buffered but unapplied, missing);
//! then generated Full / Partial needs within the advertised heads are answered through the real
//! process_sync / handle_need and compared with the harness model and the server's own crsql_changes.

use proptest::prelude::*;
use serde::{Deserialize, Serialize};

use crate::{
    c01::{need_strategy, op_strategy, with_world},
    common::{CaseInfo, Ctx, Fail, Report, Tier, replay_case, run_prop},
    world::{NeedSpec, Op, World},
};

#[derive(Debug, Clone, Serialize, Deserialize)]
pub struct Case {
    pub nodes: u8,
    pub history: Vec<Op>,
    pub needs: Vec<(u8, u8, NeedSpec)>,
}

pub fn case_strategy(max_ops: usize) -> impl Strategy<Value = Case> {
    // histories that leave gaps and partials behind: many transactions, single deliveries and partial
    // fetches, (almost) no full sync sessions
    let partial_fetch = (0u8..3, 0u8..3, 0u8..3, (any::<u8>(), proptest::collection::vec((any::<u8>(), any::<u8>()), 1..3)).prop_map(|(ver, ranges)| NeedSpec::Partial { ver, ranges }), any::<bool>())
        .prop_map(|(client, server, origin, need, batch)| Op::Fetch { client, server, origin, need, drop_mask: 0, batch });
    let hist_op = prop_oneof![
        4 => op_strategy(10, 4, 0, 1, 1, 1),
        3 => partial_fetch,
        1 => op_strategy(1, 1, 1, 1, 1, 1),
    ];
    (2u8..=3, proptest::collection::vec(hist_op, 8..=max_ops), proptest::collection::vec((0u8..3, 0u8..3, need_strategy()), 5..20)).prop_map(|(nodes, history, needs)| Case { nodes, history, needs })
}

async fn run_case(case: &Case, info: &mut CaseInfo, root: std::path::PathBuf) -> Result<(), Fail> {
    let mut w = World::new(case.nodes as usize, &root).await?;
    for op in &case.history {
        w.step(op, info).await?;
    }
    let n = w.n();
    let mut asked = 0;
    for (server, origin, spec) in &case.needs {
        let (server, origin) = (*server as usize % n, *origin as usize % n);
        let Some(need) = w.need_from_spec(server, origin, spec) else {
            info.skipped_ops += 1;
            continue;
        };
        asked += 1;
        w.check_serve(server, origin, need.clone(), info).await.map_err(|mut f| {
            f.msg = format!("server {server} asked {need:?} about node {origin}: {}", f.msg);
            f
        })?;
    }
    info.total_ops += case.needs.len() as u64;
    w.classify(info);
    if asked == 0 {
        info.nontrivial = false;
    }
    Ok(())
}

pub fn check(case: &Case, info: &mut CaseInfo) -> Result<(), Fail> {
    with_world("c05-", |root| run_case(case, info, root))
}

pub fn run(ctx: &Ctx, rep: &mut Report) {
    let (n, ops) = match ctx.tier {
        Tier::Quick => (800, 22),
        Tier::Thorough => (20_000, 50),
    };
    run_prop(ctx, rep, "needs", case_strategy(ops), n, 200, check);
}

pub fn replay(_sub: &str, case: &serde_json::Value) -> Result<CaseInfo, Fail> {
    replay_case::<Case, _>(case, check)
}
