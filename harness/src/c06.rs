//! C06 – a crash at any point loses no acknowledged write and no sync obligation.
//! Engine E2 with fault enumeration: inside every generated history a crash image (database + WAL
//! as a dying process leaves them) of the designated node is taken after *every* step that committed
//! something on it.  Each image is restarted through the real `start_with_config` (real reload of
//! the bookkeeping, real re-scheduling of fully buffered versions, real apply loop):
//!   (1) every transaction acknowledged before the image is present,
//!   (2) the rebuilt advertised state equals the harness model at the image (held only what is stored,
//!       everything lacking listed as needed / partial with exact ranges),
//!   (3) versions completely buffered at the image get applied without any new delivery.
//! The last image is also re-opened as a harness-driven node, the history continues with a fair
//! schedule and must reach the C01 convergence verdict.

use std::{
    collections::BTreeMap,
    path::{Path, PathBuf},
    time::{Duration, Instant},
};

use klukai_agent::agent::start_with_config;
use klukai_types::{
    broadcast::Timestamp,
    change::Change,
    sync::generate_sync,
    tripwire::Tripwire,
};
use proptest::prelude::*;
use serde::{Deserialize, Serialize};

use crate::{
    c01::{op_strategy, with_world},
    common::{CaseInfo, Ctx, Fail, Report, Tier, replay_case, run_prop},
    ensure,
    sim::{self, OriginModel, Reference, SimNode},
    world::{Op, World, infra},
};

#[derive(Debug, Clone, Serialize, Deserialize)]
pub struct Case {
    pub nodes: u8,
    pub crash_node: u8,
    pub ops: Vec<Op>,
}

pub fn case_strategy(max_ops: usize) -> impl Strategy<Value = Case> {
    (2u8..=3, 0u8..3, proptest::collection::vec(op_strategy(8, 6, 2, 1, 3, 2), 4..=max_ops)).prop_map(|(nodes, crash_node, ops)| Case { nodes, crash_node, ops })
}

struct Image {
    dir: PathBuf,
    after_op: usize,
    model: BTreeMap<usize, OriginModel>,
    shadow_len: usize,
    /// (origin, version, changes) completely buffered but not applied at the image
    pending: Vec<(usize, u64, Vec<(Change, Timestamp)>)>,
    kind: &'static str,
}

fn touches(op: &Op, x: usize, n: usize) -> bool {
    let m = |v: &u8| *v as usize % n == x;
    match op {
        Op::Tx { node, .. } => m(node),
        Op::Deliver { dst, .. } => m(dst),
        Op::Serve { .. } => false,
        Op::Fetch { client, .. } => m(client),
        Op::Sync { client, .. } => m(client),
        Op::Apply { node, .. } => m(node),
        Op::Clear { node } => m(node),
    }
}

fn expected_tables(log: &[(Vec<Change>, Timestamp)], extra: &[(usize, u64, Vec<(Change, Timestamp)>)]) -> Result<std::collections::BTreeMap<String, Vec<Vec<klukai_types::api::SqliteValue>>>, Fail> {
    let r = Reference::new().map_err(infra)?;
    for (changes, ts) in log {
        r.apply(changes, *ts).map_err(infra)?;
    }
    for (_, _, rows) in extra {
        if let Some((_, ts)) = rows.first() {
            let changes: Vec<Change> = rows.iter().map(|x| x.0.clone()).collect();
            r.apply(&changes, *ts).map_err(infra)?;
        }
    }
    r.tables().map_err(infra)
}

async fn restart_and_check(w: &World, x: usize, img: &Image, root: &Path, k: usize, info: &mut CaseInfo) -> Result<(), Fail> {
    // restart on a private copy of the image (the agent will write to it)
    let dir = root.join(format!("restart{k}"));
    std::fs::create_dir_all(&dir).map_err(|e| Fail::infra(e.to_string()))?;
    for f in ["corrosion.db", "corrosion.db-wal"] {
        if img.dir.join(f).exists() {
            std::fs::copy(img.dir.join(f), dir.join(f)).map_err(|e| Fail::infra(e.to_string()))?;
        }
    }
    let (tripwire, tw_worker, tw_tx) = Tripwire::new_simple();
    let (agent, bookie, _transport, handles) = start_with_config(sim::node_config(&dir), tripwire).await.map_err(|e| Fail::new("restart-succeeds", format!("image after op #{}: {e}", img.after_op)))?;
    ensure!(agent.actor_id() == w.actor(x), "restart-keeps-identity", "restarted node has actor {} instead of {}", agent.actor_id(), w.actor(x));

    // (1) + (3): acknowledged writes present, completely buffered versions applied without new deliveries
    let want = expected_tables(&w.shadow_log[x][..img.shadow_len], &img.pending)?;
    let deadline = Instant::now() + Duration::from_secs(20);
    let mut got;
    loop {
        let conn = agent.pool().read().await.map_err(|e| Fail::infra(e.to_string()))?;
        got = tokio::task::block_in_place(|| sim::dump_tables_conn(&conn)).map_err(infra)?;
        if got == want || Instant::now() > deadline {
            break;
        }
        tokio::time::sleep(Duration::from_millis(5)).await;
    }
    if got != want {
        let base = expected_tables(&w.shadow_log[x][..img.shadow_len], &[])?;
        let clause = if got == base && !img.pending.is_empty() { "buffered-versions-applied-after-restart" } else { "acknowledged-and-stored-data-present-after-restart" };
        return Err(Fail::new(
            clause,
            format!("image after op #{} ({}): restarted node shows\n {}\n expected\n {}\n (completely buffered at the image: {:?})", img.after_op, img.kind, sim::tables_repr(&got), sim::tables_repr(&want), img.pending.iter().map(|p| (p.0, p.1)).collect::<Vec<_>>()),
        ));
    }
    if !img.pending.is_empty() {
        info.class("image-with-completely-buffered-unapplied-version");
    }

    // (2) the rebuilt advertised state vs the model at the image (buffered-complete versions count as applied now)
    let mut model = img.model.clone();
    for (o, v, _) in &img.pending {
        model.get_mut(o).unwrap().on_applied(*v);
    }
    // the apply loop updates the bookkeeping after the rows became visible: wait for it to settle
    let deadline = Instant::now() + Duration::from_secs(10);
    loop {
        let st = generate_sync(&bookie, agent.actor_id()).await;
        let mut res = Ok(());
        for (origin, m) in &model {
            if let Err((clause, msg)) = sim::check_advertised_after_restart(&st, w.actor(*origin), m, *origin == x) {
                res = Err(Fail::new(&format!("after-restart:{clause}"), format!("image after op #{} ({}): restarted node {x} about node {origin}: {msg} [model: last_seq declarations {:?}, undetermined {:?}, partial {:?}]", img.after_op, img.kind, m.last_seqs, m.undetermined, m.partial.keys().collect::<Vec<_>>())));
                break;
            }
        }
        for a in st.heads.keys() {
            if !model.contains_key(&w.actor_idx[a]) {
                res = Err(Fail::new("after-restart:advertises-only-known-actors", format!("image after op #{}: restarted node advertises a head for {a} it never heard of", img.after_op)));
            }
        }
        match res {
            Ok(()) => break,
            Err(f) => {
                if img.pending.is_empty() || Instant::now() > deadline {
                    return Err(f);
                }
                tokio::time::sleep(Duration::from_millis(5)).await;
            }
        }
    }
    // stop the restarted agent
    let _ = tw_tx.send(()).await;
    tokio::spawn(tw_worker);
    for h in handles {
        let _ = tokio::time::timeout(Duration::from_secs(5), h).await;
    }
    Ok(())
}

async fn run_case(case: &Case, info: &mut CaseInfo, root: PathBuf) -> Result<(), Fail> {
    run_history(case.nodes as usize, case.crash_node as usize, &[], &case.ops, info, root).await
}

/// `prefix` runs without crash points (it only sets the scene), `ops` with a crash point after every
/// step that committed on the crash node
async fn run_history(n: usize, crash_node: usize, prefix: &[Op], ops: &[Op], info: &mut CaseInfo, root: PathBuf) -> Result<(), Fail> {
    let x = crash_node % n;
    let mut w = World::new(n, &root).await?;
    for op in prefix {
        w.step(op, info).await?;
    }
    let mut images: Vec<Image> = vec![];
    for (i, op) in ops.iter().enumerate() {
        let eff = w.step(op, info).await?;
        if eff.skipped || !touches(op, x, n) {
            continue;
        }
        let dir = root.join(format!("image{i}"));
        w.nodes[x].crash_image(&dir).map_err(infra)?;
        let model = w.models[x].clone();
        let mut pending = vec![];
        for (o, m) in &model {
            for v in m.partial.keys() {
                if m.covered(*v) && !m.held.contains(v) && !m.undetermined.contains(v) {
                    let rows: Vec<(Change, Timestamp)> = w.chunk_buf.get(&(x, *o, *v)).map(|b| b.values().cloned().collect()).unwrap_or_default();
                    pending.push((*o, *v, rows));
                }
            }
        }
        let kind = match op {
            Op::Tx { .. } => "after a local write",
            Op::Apply { .. } => "after an apply step",
            Op::Clear { .. } => "after a clear step",
            _ => "after a delivery",
        };
        if model.values().any(|m| m.any_ambiguous()) {
            // suppliers disagreed about a version: no exact expectation for this image
            continue;
        }
        images.push(Image { dir, after_op: i, model, shadow_len: w.shadow_log[x].len(), pending, kind });
    }
    let mut nt = false;
    for (k, img) in images.iter().enumerate() {
        restart_and_check(&w, x, img, &root, k, info).await?;
        let has_partial = img.model.values().any(|m| !m.partial.is_empty());
        if has_partial || !img.pending.is_empty() || img.kind == "after a local write" {
            nt = true;
        }
        if has_partial {
            info.class("image-between-partial-delivery-and-apply");
        }
    }
    info.total_ops += images.len() as u64;
    if images.len() >= 3 {
        info.class("history-with>=3-crash-points");
    }

    // crash at the end, re-open, continue: still converges
    let dir = root.join("final-image");
    w.nodes[x].crash_image(&dir).map_err(infra)?;
    let reopened = SimNode::reopen(x, dir).await.map_err(|e| Fail::new("restart-succeeds", e.0))?;
    ensure!(reopened.actor() == w.actor(x), "restart-keeps-identity", "re-opened node changed its actor id");
    w.nodes[x] = reopened;
    {
        let st = w.nodes[x].sync_state().await;
        let origins: Vec<usize> = w.models[x].keys().copied().collect();
        for o in origins {
            let a = w.actor(o);
            sim::check_advertised_after_restart(&st, a, &w.models[x][&o], o == x).map_err(|(clause, msg)| Fail::new(&format!("after-reopen:{clause}"), format!("node {x} about node {o}: {msg}")))?;
            // trailing dataless versions the node forgot are simply lacking again
            let head = st.heads.get(&a).map(|v| v.0).unwrap_or(0);
            let m = w.models[x].get_mut(&o).unwrap();
            if head < m.max && o != x {
                m.max = head;
                m.held.retain(|v| *v <= head);
                // ... and whatever apply trigger they once owed went with them: they are fetched again
                w.expected_triggers.retain(|(nd, org, v)| !(*nd == x && *org == o && *v > head));
            }
        }
    }
    w.quiesce(12, info).await?;
    w.check_converged().await?;
    w.classify(info);
    info.nontrivial = nt;
    Ok(())
}

pub fn check(case: &Case, info: &mut CaseInfo) -> Result<(), Fail> {
    with_world("c06-", |root| run_case(case, info, root))
}

/// chunk-heavy histories (the C03 generator): the crash node is the receiver that gets versions as
/// many small, non-adjacent, repeated seq-range chunks - images between partial deliveries are the rule
pub fn check_chunks(case: &crate::c03::Case, info: &mut CaseInfo) -> Result<(), Fail> {
    with_world("c06c-", |root| run_history(3, 2, &case.prefix, &case.ops, info, root))
}

pub fn run(ctx: &Ctx, rep: &mut Report) {
    let (n, ops, n_chunks, chunk_ops) = match ctx.tier {
        Tier::Quick => (64, 14, 64, 10),
        Tier::Thorough => (2_000, 30, 2_000, 24),
    };
    run_prop(ctx, rep, "crash-points", case_strategy(ops), n, 60, check);
    run_prop(ctx, rep, "chunk-crash-points", crate::c03::case_strategy(chunk_ops), n_chunks, 60, check_chunks);
}

pub fn replay(sub: &str, case: &serde_json::Value) -> Result<CaseInfo, Fail> {
    if sub.starts_with("chunk") { replay_case::<crate::c03::Case, _>(case, check_chunks) } else { replay_case::<Case, _>(case, check) }
}
