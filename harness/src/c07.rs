//! C07 – local transactions are all-or-nothing and get gap-free consecutive versions.
//! Engine E2 (single sim node).  Oracles: a plain SQLite shadow database running the same statements
//! (differential for table contents), a version counter model, the node's own crsql_changes as ground
//! truth for what must be broadcast, and the advertised sync state for the own actor.

use std::time::Duration;

use klukai_types::{
    api::{SqliteParam as P, Statement},
    broadcast::Changeset,
    change::Change,
};
use proptest::prelude::*;
use serde::{Deserialize, Serialize};

use crate::{
    common::{CaseInfo, Ctx, Fail, Report, Tier, replay_case, run_prop},
    ensure,
    sim::{self, SimErr, SimNode, Stmt},
};

#[derive(Debug, Clone, Serialize, Deserialize, PartialEq)]
pub enum TStmt {
    Ok(Stmt),
    /// plain INSERT: fails with a constraint violation if the key exists
    PlainInsertKv { key: u8, tag: u16 },
    /// NOT NULL violation
    InsertNullA { key: u8 },
    Syntax,
    UnknownTable,
    WrongParamCount,
    /// INSERT .. SELECT producing n rows (0..=3000) => up to thousands of cell changes
    Bulk { n: u16, tag: u16 },
    /// matches no row
    NoOpUpdate,
    NoOpDelete,
    /// matches rows but writes the values they already have
    SelfAssign,
    NamedParamUpsert { key: u8, tag: u16 },
}

#[derive(Debug, Clone, Serialize, Deserialize)]
pub struct Request {
    pub stmts: Vec<TStmt>,
}

#[derive(Debug, Clone, Serialize, Deserialize)]
pub enum Step {
    One(Request),
    Concurrent(Vec<Request>),
    /// a peer commits a transaction (fresh rows nobody else touches) and this node merges it - the
    /// peer's version numbers overlap with this node's own (versions are per actor)
    Peer { rows: u8, tag: u16 },
}

#[derive(Debug, Clone, Serialize, Deserialize)]
pub struct Case {
    pub steps: Vec<Step>,
}

pub fn stmt_strategy() -> impl Strategy<Value = Stmt> {
    prop_oneof![
        4 => (0u8..6, any::<u16>()).prop_map(|(key, tag)| Stmt::UpsertKv { key, tag }),
        2 => (0u8..6, any::<u16>()).prop_map(|(key, tag)| Stmt::UpdateKvA { key, tag }),
        2 => (0u8..6, any::<u16>()).prop_map(|(key, tag)| Stmt::UpdateKvB { key, tag }),
        1 => any::<u16>().prop_map(|tag| Stmt::UpdateAllKvB { tag }),
        2 => (0u8..6).prop_map(|key| Stmt::DeleteKv { key }),
        2 => (0u8..3, 0u8..2, any::<u16>()).prop_map(|(k1, k2, tag)| Stmt::UpsertPair { k1, k2, tag }),
        1 => (0u8..3, 0u8..2).prop_map(|(k1, k2)| Stmt::DeletePair { k1, k2 }),
        4 => (0u8..3, 0u8..5, any::<u16>()).prop_map(|(key, size_class, tag)| Stmt::UpsertBig { key, size_class, tag }),
        1 => (0u8..3).prop_map(|key| Stmt::DeleteBig { key }),
        1 => (0u8..6, any::<u16>()).prop_map(|(n, tag)| Stmt::MultiKv { n, tag }),
    ]
}

fn tstmt_strategy() -> impl Strategy<Value = TStmt> {
    prop_oneof![
        24 => stmt_strategy().prop_map(TStmt::Ok),
        1 => (0u8..6, any::<u16>()).prop_map(|(key, tag)| TStmt::PlainInsertKv { key, tag }),
        1 => (0u8..6).prop_map(|key| TStmt::InsertNullA { key }),
        1 => Just(TStmt::Syntax),
        1 => Just(TStmt::UnknownTable),
        1 => Just(TStmt::WrongParamCount),
        3 => (prop_oneof![Just(0u16), 1u16..40, 40u16..400, 400u16..3000], any::<u16>()).prop_map(|(n, tag)| TStmt::Bulk { n, tag }),
        1 => Just(TStmt::NoOpUpdate),
        1 => Just(TStmt::NoOpDelete),
        1 => Just(TStmt::SelfAssign),
        2 => (0u8..6, any::<u16>()).prop_map(|(key, tag)| TStmt::NamedParamUpsert { key, tag }),
    ]
}

fn request_strategy() -> impl Strategy<Value = Request> {
    proptest::collection::vec(tstmt_strategy(), 1..=6).prop_map(|stmts| Request { stmts })
}

pub fn case_strategy(max_steps: usize) -> impl Strategy<Value = Case> {
    proptest::collection::vec(
        prop_oneof![
            6 => request_strategy().prop_map(Step::One),
            1 => proptest::collection::vec(request_strategy(), 2..=6).prop_map(Step::Concurrent),
            2 => (0u8..3, any::<u16>()).prop_map(|(rows, tag)| Step::Peer { rows, tag }),
        ],
        3..=max_steps,
    )
    .prop_map(|steps| Case { steps })
}

fn statements(req: &Request, op: usize) -> Vec<Statement> {
    let mut out = vec![];
    for (si, s) in req.stmts.iter().enumerate() {
        match s {
            TStmt::Ok(st) => {
                // statement index si keeps written values unique inside the request
                let mut v = sim::to_statements(std::slice::from_ref(st), si * 100, op);
                out.append(&mut v);
            }
            TStmt::PlainInsertKv { key, tag } => out.push(Statement::WithParams(
                "INSERT INTO kv (id, a, b) VALUES (?, ?, ?)".into(),
                vec![P::Integer(sim::KV_KEYS[*key as usize % 6]), P::Text(sim::text_val(50 + si, op, si, *tag).into()), P::Integer(sim::int_val(50 + si, op, si, *tag))],
            )),
            TStmt::InsertNullA { key } => out.push(Statement::WithParams("INSERT INTO kv (id, a) VALUES (?, NULL)".into(), vec![P::Integer(sim::KV_KEYS[*key as usize % 6] + 5000)])),
            TStmt::Syntax => out.push(Statement::Simple("INSRT INTO kv VALUES (1, 'x', 2)".into())),
            TStmt::UnknownTable => out.push(Statement::Simple("INSERT INTO nope (id) VALUES (1)".into())),
            TStmt::WrongParamCount => out.push(Statement::WithParams("UPDATE kv SET a = ? WHERE id = ?".into(), vec![P::Text("lonely".into())])),
            TStmt::Bulk { n, tag } => out.push(Statement::WithParams(
                "INSERT INTO big (id, payload) SELECT value + 1000, ? || value FROM generate_series(1, ?) ON CONFLICT (id) DO UPDATE SET payload = excluded.payload".into(),
                vec![P::Text(sim::text_val(70 + si, op, si, *tag).into()), P::Integer(*n as i64)],
            )),
            TStmt::NoOpUpdate => out.push(Statement::Simple("UPDATE kv SET a = 'never' WHERE id = -77".into())),
            TStmt::NoOpDelete => out.push(Statement::Simple("DELETE FROM pair WHERE k2 = 'no such key'".into())),
            TStmt::SelfAssign => out.push(Statement::Simple("UPDATE kv SET b = b".into())),
            TStmt::NamedParamUpsert { key, tag } => out.push(Statement::WithNamedParams(
                "INSERT INTO kv (id, a, b) VALUES (:id, :a, :b) ON CONFLICT (id) DO UPDATE SET a = excluded.a, b = excluded.b".into(),
                [
                    (":id".to_string(), P::Integer(sim::KV_KEYS[*key as usize % 6])),
                    (":a".to_string(), P::Text(sim::text_val(90 + si, op, si, *tag).into())),
                    (":b".to_string(), P::Integer(sim::int_val(90 + si, op, si, *tag))),
                ]
                .into_iter()
                .collect(),
            )),
        }
    }
    out
}

/// plain SQLite shadow (no cr-sqlite): same schema, same statements, rollback on error
struct Shadow {
    conn: rusqlite::Connection,
}

impl Shadow {
    fn new() -> Result<Self, SimErr> {
        let conn = rusqlite::Connection::open_in_memory()?;
        conn.execute_batch(sim::SCHEMA)?;
        rusqlite::vtab::series::load_module(&conn)?;
        Ok(Shadow { conn })
    }
    /// Ok(total rows affected) if all statements succeed (committed), Err(index) otherwise (rolled back)
    fn run(&mut self, stmts: &[Statement]) -> Result<usize, usize> {
        let tx = self.conn.transaction().map_err(|_| 0usize)?;
        let mut total = 0;
        for (i, s) in stmts.iter().enumerate() {
            let r = (|| -> rusqlite::Result<usize> {
                let mut p = tx.prepare(s.query())?;
                match s {
                    Statement::Simple(_) => p.execute([]),
                    Statement::WithParams(_, params) => p.execute(rusqlite::params_from_iter(params)),
                    Statement::WithNamedParams(_, params) => {
                        let v: Vec<(&str, &dyn rusqlite::ToSql)> = params.iter().map(|(k, v)| (k.as_str(), v as &dyn rusqlite::ToSql)).collect();
                        p.execute(v.as_slice())
                    }
                    Statement::Verbose { .. } => unreachable!(),
                }
            })();
            match r {
                Ok(n) => total += n,
                Err(_) => return Err(i),
            }
        }
        tx.commit().map_err(|_| stmts.len())?;
        Ok(total)
    }
    fn tables(&self) -> Result<std::collections::BTreeMap<String, Vec<Vec<klukai_types::api::SqliteValue>>>, SimErr> {
        sim::dump_tables_conn(&self.conn)
    }
}

fn infra(e: SimErr) -> Fail {
    Fail::infra(e.0)
}

struct State {
    counter: u64,
}

async fn db_version(node: &SimNode) -> Result<i64, Fail> {
    node.count("SELECT crsql_db_version()").await.map_err(infra)
}

/// checks the broadcast of an acknowledged version against crsql_changes
///
/// `exact`: the version was committed and announced before any later local transaction started, so
/// its announcement must carry exactly its rows.  In a concurrent group a later version of the group
/// may already have overwritten some of its cells when the announcement is built (those cells are
/// announced with the later version); then the announcement must still tile 0..=last_seq and carry
/// at least every row of the version that is still live, and nothing that is not its own.
async fn check_broadcast(node: &mut SimNode, version: u64, exact: bool, info: &mut CaseInfo) -> Result<(), Fail> {
    let chunks = match node.collect_broadcast(version, None).await {
        Ok(c) => c,
        Err(e) => return Err(Fail::new("announced-to-cluster", format!("v{version}: {}", e.0))),
    };
    let truth: Vec<Change> = node.own_version_changes(version).await.map_err(infra)?;
    let declared = chunks.iter().filter_map(|c| c.changeset.last_seq()).map(|s| s.0).next().unwrap_or(0);
    let last_seq = if exact {
        ensure!(!truth.is_empty(), "acked-version-has-changes", "acknowledged v{version} has no rows in crsql_changes");
        truth.iter().map(|c| c.seq.0).max().unwrap()
    } else {
        ensure!(truth.iter().all(|c| c.seq.0 <= declared), "broadcast-last-seq", "v{version}: live row beyond the declared last_seq {declared}");
        declared
    };
    // tiling
    let mut ranges: Vec<(u64, u64)> = vec![];
    let mut all: Vec<Change> = vec![];
    for c in &chunks {
        ensure!(c.actor_id == node.actor(), "broadcast-actor", "changeset announced for another actor");
        match &c.changeset {
            Changeset::Full { version: v, changes, seqs, last_seq: ls, .. } => {
                ensure!(v.0 == version, "broadcast-version", "chunk for v{} while announcing v{version}", v.0);
                ensure!(ls.0 == last_seq, "broadcast-last-seq", "chunk declares last_seq {} but the version's last seq is {last_seq}", ls.0);
                for ch in changes {
                    ensure!(seqs.contains(&ch.seq), "change-inside-chunk-range", "change seq {} outside {:?}", ch.seq.0, seqs);
                }
                ranges.push((seqs.start().0, seqs.end().0));
                all.extend(changes.iter().cloned());
            }
            other => return Err(Fail::new("broadcast-is-full", format!("unexpected changeset {other:?}"))),
        }
    }
    ranges.sort();
    ensure!(ranges.first().unwrap().0 == 0, "tiles-from-0", "v{version}: chunks {ranges:?} do not start at 0");
    ensure!(ranges.last().unwrap().1 == last_seq, "tiles-to-last-seq", "v{version}: chunks {ranges:?} do not end at {last_seq}");
    for w in ranges.windows(2) {
        ensure!(w[1].0 == w[0].1 + 1, "tiles-contiguous", "v{version}: chunks {ranges:?} overlap or leave a hole");
    }
    all.sort_by_key(|c| c.seq.0);
    for w in all.windows(2) {
        ensure!(w[0].seq != w[1].seq, "no-change-announced-twice", "v{version}: seq {} announced twice", w[0].seq.0);
    }
    for c in &all {
        ensure!(c.db_version.0 == version && c.site_id == node.actor().to_bytes(), "announces-only-own-changes", "v{version}: announced a change of version {} / another site", c.db_version.0);
    }
    if exact {
        ensure!(all == truth, "broadcast-carries-exactly-the-changes", "v{version}: announced {} changes, crsql_changes has {}", all.len(), truth.len());
    } else {
        for t in &truth {
            ensure!(all.contains(t), "broadcast-carries-live-changes", "v{version}: live change seq {} was not announced", t.seq.0);
        }
    }
    if chunks.len() >= 2 {
        info.class("version-broadcast-in>=2-chunks");
    }
    if truth.len() >= 1000 {
        info.class(">=1000-cell-changes");
    }
    Ok(())
}

async fn check_own_sync_state(node: &SimNode, counter: u64) -> Result<(), Fail> {
    let st = node.sync_state().await;
    let a = node.actor();
    ensure!(!st.need.contains_key(&a) && !st.partial_need.contains_key(&a), "never-a-gap-in-own-versions", "own actor listed with need {:?} / partial {:?}", st.need.get(&a), st.partial_need.get(&a));
    let head = st.heads.get(&a).map(|v| v.0).unwrap_or(0);
    ensure!(head == counter, "own-head-is-version-counter", "advertised own head {head}, acknowledged versions so far {counter}");
    Ok(())
}

async fn run_case(case: &Case, info: &mut CaseInfo, dir: std::path::PathBuf) -> Result<(), Fail> {
    let t0 = std::time::Instant::now();
    let mut node = SimNode::new(0, dir).await.map_err(infra)?;
    if std::env::var_os("KVERIF_TIMING").is_some() {
        eprintln!("node setup {:?}", t0.elapsed());
    }
    let mut shadow = Shadow::new().map_err(infra)?;
    let mut st = State { counter: 0 };
    let mut op = 0usize;
    let mut peer: Option<SimNode> = None;
    let mut peer_rows = 0i64;
    let mut merged_peer_versions: std::collections::BTreeSet<u64> = Default::default();
    for step in &case.steps {
        if !matches!(step, Step::Peer { .. }) && merged_peer_versions.contains(&(st.counter + 1)) {
            info.class("request-while-a-merged-peer-version-has-our-next-number");
            info.nontrivial = true;
        }
        match step {
            Step::Peer { rows, tag } => {
                op += 1;
                if peer.is_none() {
                    peer = Some(SimNode::new(1, node.dir.join("peer")).await.map_err(infra)?);
                }
                let p = peer.as_mut().unwrap();
                let mut stmts = vec![];
                for _ in 0..(*rows as usize % 3 + 1) {
                    peer_rows += 1;
                    stmts.push(Statement::WithParams("INSERT INTO big (id, payload) VALUES (?, ?)".into(), vec![P::Integer(20_000 + peer_rows), P::Text(sim::text_val(7, op, peer_rows as usize, *tag).into())]));
                }
                let (status, version, _) = p.transact(stmts.clone()).await;
                ensure!(status == 200 && version.is_some(), "valid-request-is-acknowledged", "peer write got status {status} version {version:?}");
                let v = version.unwrap();
                let last_seq = p.own_version_changes(v).await.map_err(infra)?.iter().map(|c| c.seq.0).max().unwrap_or(0);
                let chunks = p.collect_broadcast(v, Some(last_seq)).await.map_err(infra)?;
                let dbv_before = db_version(&node).await?;
                node.deliver(chunks, klukai_types::broadcast::ChangeSource::Broadcast).await.map_err(infra)?;
                ensure!(shadow.run(&stmts).is_ok(), "infra", "shadow rejected the peer's statements");
                let after = node.dump_tables().await.map_err(infra)?;
                let want = shadow.tables().map_err(infra)?;
                ensure!(after == want, "merged-peer-version-visible", "tables differ from the shadow after merging the peer's v{v}");
                // merging a peer's version consumes none of our own versions and announces nothing of ours
                let dbv_after = db_version(&node).await?;
                ensure!(dbv_after == dbv_before, "merge-consumes-no-own-version", "merging the peer's v{v} moved our crsql_db_version {dbv_before} -> {dbv_after}");
                let stray = node.stray_broadcasts(Duration::from_millis(0)).await;
                ensure!(stray.is_empty(), "no-stray-change-message", "merging a peer version made us announce {:?}", stray.iter().map(sim::cs_brief).collect::<Vec<_>>());
                check_own_sync_state(&node, st.counter).await?;
                merged_peer_versions.insert(v);
                info.class("merged-a-peer-version");
            }
            Step::One(req) => {
                op += 1;
                let stmts = statements(req, op);
                let before = node.dump_tables().await.map_err(infra)?;
                let dbv_before = db_version(&node).await?;
                let (status, version, _results) = node.transact(stmts.clone()).await;
                let expect = shadow.run(&stmts);
                match expect {
                    Err(idx) => {
                        ensure!(status != 200, "failing-request-is-rejected", "request #{op} fails at statement {idx} on plain SQLite but was acknowledged with {status} version {version:?}");
                        let after = node.dump_tables().await.map_err(infra)?;
                        ensure!(after == before, "failed-request-changes-no-row", "request #{op} failed at statement {idx} but tables changed:\n before {}\n after  {}", sim::tables_repr(&before), sim::tables_repr(&after));
                        let dbv_after = db_version(&node).await?;
                        ensure!(dbv_after == dbv_before, "failed-request-consumes-no-version", "request #{op} failed but crsql_db_version went {dbv_before} -> {dbv_after}");
                        if idx > 0 {
                            info.class("fails-after-earlier-statements-changed-rows");
                            info.nontrivial = true;
                        }
                        info.class("failed-request");
                    }
                    Ok(rows) => {
                        ensure!(status == 200, "valid-request-is-acknowledged", "request #{op} succeeds on plain SQLite but got status {status}");
                        let after = node.dump_tables().await.map_err(infra)?;
                        let want = shadow.tables().map_err(infra)?;
                        ensure!(after == want, "acknowledged-request-applies-completely", "request #{op}: tables differ from the shadow:\n node   {}\n shadow {}", sim::tables_repr(&after), sim::tables_repr(&want));
                        match version {
                            None => {
                                let dbv_after = db_version(&node).await?;
                                ensure!(dbv_after == dbv_before, "no-version-means-no-change", "request #{op} acknowledged without version but crsql_db_version went {dbv_before} -> {dbv_after}");
                                ensure!(after == before, "no-version-means-no-change", "request #{op} acknowledged without version but tables changed");
                                info.class("no-op-request");
                            }
                            Some(v) => {
                                ensure!(rows > 0, "noop-consumes-no-version", "request #{op} affected no row but consumed version {v}");
                                ensure!(v == st.counter + 1, "version-is-previous-plus-one", "request #{op} acknowledged with version {v}, previous was {}", st.counter);
                                st.counter = v;
                                check_broadcast(&mut node, v, true, info).await?;
                                if info.classes.contains(&"version-broadcast-in>=2-chunks") {
                                    info.nontrivial = true;
                                }
                            }
                        }
                    }
                }
                // nothing else may have been announced (failed / no-op requests emit nothing)
                let stray = node.stray_broadcasts(Duration::from_millis(0)).await;
                ensure!(stray.is_empty(), "no-stray-change-message", "after request #{op}: unexpected change messages {:?}", stray.iter().map(sim::cs_brief).collect::<Vec<_>>());
                check_own_sync_state(&node, st.counter).await?;
            }
            Step::Concurrent(reqs) => {
                let base_op = op;
                let mut futs = vec![];
                for (k, req) in reqs.iter().enumerate() {
                    let stmts = statements(req, base_op + 1 + k);
                    let agent_node = &node;
                    futs.push(async move { (k, stmts.clone(), agent_node.transact(stmts).await) });
                }
                op += reqs.len();
                let results = futures::future::join_all(futs).await;
                let mut acked: Vec<(u64, usize, Vec<Statement>)> = vec![];
                let mut n_fail = 0;
                for (k, stmts, (status, version, _)) in &results {
                    if *status == 200 {
                        if let Some(v) = version {
                            acked.push((*v, *k, stmts.clone()));
                        }
                    } else {
                        n_fail += 1;
                    }
                }
                acked.sort_by_key(|a| a.0);
                let versions: Vec<u64> = acked.iter().map(|a| a.0).collect();
                let want: Vec<u64> = (st.counter + 1..=st.counter + acked.len() as u64).collect();
                ensure!(versions == want, "concurrent-versions-consecutive", "concurrent group acknowledged versions {versions:?}, expected exactly {want:?}");
                // replay on the shadow in version order: each acknowledged request must succeed there
                for (v, k, stmts) in &acked {
                    match shadow.run(stmts) {
                        Ok(_) => {}
                        Err(idx) => {
                            return Err(Fail::new("acknowledged-request-valid-in-version-order", format!("concurrent request {k} (v{v}) fails at statement {idx} when replayed in version order")));
                        }
                    }
                }
                let after = node.dump_tables().await.map_err(infra)?;
                let want_t = shadow.tables().map_err(infra)?;
                ensure!(after == want_t, "concurrent-group-serialises-in-version-order", "tables differ from replaying the acknowledged requests in version order:\n node   {}\n shadow {}", sim::tables_repr(&after), sim::tables_repr(&want_t));
                for (v, _, _) in &acked {
                    st.counter = *v;
                    check_broadcast(&mut node, *v, false, info).await?;
                }
                let stray = node.stray_broadcasts(Duration::from_millis(0)).await;
                ensure!(stray.is_empty(), "no-stray-change-message", "after concurrent group: unexpected change messages {:?}", stray.iter().map(sim::cs_brief).collect::<Vec<_>>());
                check_own_sync_state(&node, st.counter).await?;
                info.class("concurrent-group");
                if n_fail > 0 && !acked.is_empty() {
                    info.class("concurrent-group-mixes-failures-and-successes");
                    info.nontrivial = true;
                }
            }
        }
    }
    info.total_ops += op as u64;
    // final: reload from disk agrees with the counter
    let reloaded = node.reloaded(node.actor()).await.map_err(infra)?;
    ensure!(reloaded.last().map(|v| v.0).unwrap_or(0) == st.counter, "durable-head", "after the history the database holds own head {:?}, acknowledged {}", reloaded.last(), st.counter);
    ensure!(reloaded.needed().is_empty(), "never-a-gap-in-own-versions", "persisted gaps for the own actor: {:?}", reloaded.needed());
    Ok(())
}

pub fn check(case: &Case, info: &mut CaseInfo) -> Result<(), Fail> {
    let dir = tempfile::Builder::new().prefix("c07-").tempdir_in(ensure_root()).map_err(|e| Fail::infra(e.to_string()))?;
    let t0 = std::time::Instant::now();
    let rt = sim::new_runtime(2);
    let r = rt.block_on(run_case(case, info, dir.path().to_path_buf()));
    let t1 = t0.elapsed();
    rt.shutdown_timeout(Duration::from_millis(200));
    let t2 = t0.elapsed();
    drop(dir);
    if std::env::var_os("KVERIF_TIMING").is_some() {
        eprintln!("case run {:?} shutdown {:?} cleanup {:?} steps {}", t1, t2 - t1, t0.elapsed() - t2, case.steps.len());
    }
    r
}

pub fn ensure_root() -> std::path::PathBuf {
    let r = sim::scratch_root();
    let _ = std::fs::create_dir_all(&r);
    r
}

pub fn run(ctx: &Ctx, rep: &mut Report) {
    let (n, steps) = match ctx.tier {
        Tier::Quick => (400, 14),
        Tier::Thorough => (12_000, 40),
    };
    run_prop(ctx, rep, "requests", case_strategy(steps), n, 300, check);
}

pub fn replay(_sub: &str, case: &serde_json::Value) -> Result<CaseInfo, Fail> {
    replay_case::<Case, _>(case, check)
}
