//! C08 – changeset chunks tile the sequence range exactly, whatever the size limit.
//! Engine E1 (pure).  Oracle: tiling + exact partition of the input, order preserved.

use std::ops::RangeInclusive;

use klukai_types::{
    api::SqliteValue,
    base::{CrsqlDbVersion, CrsqlSeq},
    change::{Change, ChunkedChanges},
};
use proptest::prelude::*;
use serde::{Deserialize, Serialize};
use serde_json::json;

use crate::{
    common::{CaseInfo, Ctx, Fail, Report, Tier, replay_case, run_prop},
    ensure,
};

#[derive(Debug, Clone, Serialize, Deserialize)]
pub struct ChunkCase {
    pub start: u64,
    pub last: u64,
    /// strictly increasing, inside [start,last]
    pub seqs: Vec<u64>,
    /// payload size per change (same length as seqs)
    pub sizes: Vec<u32>,
    pub limit: usize,
    /// (after k-th yielded chunk, new limit) – as send_change_chunks does
    pub relimits: Vec<(u8, usize)>,
}

#[derive(Debug, Clone, Serialize, Deserialize)]
pub struct RangeCase {
    pub start: u64,
    pub len: u64,
    pub chunk: usize,
    pub versions: bool,
}

fn limit_strategy() -> impl Strategy<Value = usize> {
    prop_oneof![
        Just(0usize),
        Just(1),
        Just(40),
        Just(57),
        Just(100),
        1usize..400,
        400usize..3000,
        Just(8192),
        Just(20_000),
        Just(usize::MAX),
    ]
}

fn size_strategy() -> impl Strategy<Value = u32> {
    prop_oneof![
        4 => Just(0u32),
        4 => 0u32..64,
        2 => 64u32..600,
        1 => 600u32..9000,
    ]
}

pub fn chunk_case() -> impl Strategy<Value = ChunkCase> {
    (0u64..=60, 0u64..=60, any::<u8>())
        .prop_flat_map(|(start, len, density)| {
            let last = start + len;
            let n = (len + 1) as usize;
            (
                Just(start),
                Just(last),
                proptest::collection::vec((any::<u8>(), size_strategy()), n),
                Just(density),
                limit_strategy(),
                proptest::collection::vec((0u8..6, limit_strategy()), 0..3),
            )
        })
        .prop_map(|(start, last, picks, density, limit, relimits)| {
            let mut seqs = vec![];
            let mut sizes = vec![];
            // density picks the shape: dense, holey, empty, ending early
            let thr = match density % 5 {
                0 => 255u16, // dense
                1 => 0,      // empty
                2 => 128,
                3 => 60,
                _ => 200,
            };
            let cut_tail = density % 7 == 3;
            let n = picks.len();
            for (i, (p, sz)) in picks.into_iter().enumerate() {
                if cut_tail && i * 3 > n * 2 {
                    break;
                }
                if (p as u16) < thr || thr == 255 {
                    seqs.push(start + i as u64);
                    sizes.push(sz);
                }
            }
            ChunkCase { start, last, seqs, sizes, limit, relimits }
        })
}

pub fn range_case() -> impl Strategy<Value = RangeCase> {
    (
        prop_oneof![Just(0u64), Just(1), 0u64..100, 0u64..1_000_000],
        prop_oneof![Just(0u64), 0u64..12, 0u64..120, 0u64..2000],
        1usize..=50,
        any::<bool>(),
    )
        .prop_map(|(start, len, chunk, versions)| RangeCase { start, len, chunk, versions })
}

fn mk_change(seq: u64, size: u32) -> Change {
    Change {
        table: "t".into(),
        pk: vec![1, 2, 3],
        cid: "c".into(),
        val: SqliteValue::Text("x".repeat(size as usize).into()),
        col_version: 1,
        db_version: CrsqlDbVersion(1),
        seq: CrsqlSeq(seq),
        site_id: [7u8; 16],
        cl: 1,
    }
}

pub fn check_chunks(case: &ChunkCase, info: &mut CaseInfo) -> Result<(), Fail> {
    let input: Vec<Change> = case.seqs.iter().zip(case.sizes.iter()).map(|(s, z)| mk_change(*s, *z)).collect();
    let mut chunker = ChunkedChanges::new(
        input.clone().into_iter().map(Ok),
        CrsqlSeq(case.start),
        CrsqlSeq(case.last),
        case.limit,
    );
    let mut out: Vec<(Vec<Change>, RangeInclusive<CrsqlSeq>)> = vec![];
    let mut k = 0u8;
    loop {
        match chunker.next() {
            Some(Ok(c)) => out.push(c),
            Some(Err(e)) => return Err(Fail::new("no-error", format!("iterator yielded error {e}"))),
            None => break,
        }
        for (after, lim) in &case.relimits {
            if *after == k {
                chunker.set_max_buf_size(*lim);
            }
        }
        k = k.saturating_add(1);
        ensure!(out.len() <= input.len() + 2, "terminates", "more chunks than changes + 2: {}", out.len());
    }
    // fused
    for _ in 0..3 {
        ensure!(chunker.next().is_none(), "fused", "iterator yielded again after None");
    }
    ensure!(!out.is_empty(), "non-empty", "no chunk at all for {}..={}", case.start, case.last);
    // tiling
    ensure!(
        out.first().unwrap().1.start().0 == case.start,
        "first-start",
        "first chunk starts at {} not {}",
        out.first().unwrap().1.start().0,
        case.start
    );
    ensure!(
        out.last().unwrap().1.end().0 == case.last,
        "last-end",
        "last chunk ends at {} not {}",
        out.last().unwrap().1.end().0,
        case.last
    );
    for w in out.windows(2) {
        ensure!(
            w[1].1.start().0 == w[0].1.end().0 + 1,
            "contiguous",
            "chunk {:?} followed by {:?}",
            w[0].1,
            w[1].1
        );
    }
    for (changes, seqs) in &out {
        ensure!(seqs.start() <= seqs.end(), "range-nonempty", "inverted range {:?}", seqs);
        for c in changes {
            ensure!(
                seqs.contains(&c.seq),
                "change-inside-range",
                "change seq {} outside its chunk range {:?}",
                c.seq.0,
                seqs
            );
        }
    }
    // exact partition, order preserved
    let concat: Vec<Change> = out.iter().flat_map(|(c, _)| c.iter().cloned()).collect();
    ensure!(
        concat == input,
        "partition",
        "concatenation of chunks differs from input: got seqs {:?}, want {:?}",
        concat.iter().map(|c| c.seq.0).collect::<Vec<_>>(),
        case.seqs
    );

    // classification
    let holes_at_border = out.windows(2).any(|w| {
        // a hole at a border: the next chunk's first change is not at its range start, or
        // the previous chunk's last change is not at its range end
        let a_last = w[0].0.last().map(|c| c.seq.0);
        let b_first = w[1].0.first().map(|c| c.seq.0);
        a_last != Some(w[0].1.end().0) || b_first != Some(w[1].1.start().0)
    });
    if out.len() >= 3 {
        info.class("chunks>=3");
    }
    if out.len() == 1 {
        info.class("chunks=1");
    }
    if input.is_empty() {
        info.class("empty-input");
    }
    if case.seqs.last().copied() != Some(case.last) {
        info.class("ends-before-last");
    }
    if holes_at_border {
        info.class("hole-at-border");
    }
    if !case.relimits.is_empty() && out.len() > 1 {
        info.class("limit-changed-midway");
    }
    info.nontrivial = out.len() >= 3 && holes_at_border;
    Ok(())
}

pub fn check_range(case: &RangeCase, info: &mut CaseInfo) -> Result<(), Fail> {
    let start = case.start;
    let end = case.start + case.len;
    let subs: Vec<RangeInclusive<u64>> = if case.versions {
        klukai_agent::api::peer::verif_hooks::chunk_range_versions(CrsqlDbVersion(start)..=CrsqlDbVersion(end), case.chunk)
            .into_iter()
            .map(|r| r.start().0..=r.end().0)
            .collect()
    } else {
        klukai_agent::api::peer::verif_hooks::chunk_range_u64(start..=end, case.chunk)
    };
    ensure!(!subs.is_empty(), "non-empty", "no sub-range for {start}..={end}");
    let mut covered = rangemap::RangeInclusiveSet::new();
    for r in &subs {
        ensure!(r.start() <= r.end(), "sub-nonempty", "inverted sub-range {r:?}");
        ensure!(*r.start() >= start && *r.end() <= end, "sub-inside", "sub-range {r:?} outside {start}..={end}");
        covered.insert(r.clone());
    }
    let gaps: Vec<_> = covered.gaps(&(start..=end)).collect();
    ensure!(gaps.is_empty(), "union-exact", "sub-ranges of {start}..={end} (chunk {}) miss {gaps:?}", case.chunk);
    if subs.len() >= 3 {
        info.class("subranges>=3");
    }
    info.nontrivial = subs.len() >= 2;
    Ok(())
}

fn sweep(ctx: &Ctx, rep: &mut Report) {
    // exhaustive: last<=6, every start<=last, every subset of seqs, 3 limits, 2 size shapes
    let mut n = 0u64;
    for last in 0u64..=6 {
        for start in 0..=last {
            let len = (last - start + 1) as usize;
            for mask in 0u32..(1 << len) {
                let seqs: Vec<u64> = (0..len).filter(|i| mask & (1 << i) != 0).map(|i| start + i as u64).collect();
                for limit in [0usize, 250, 100_000] {
                    for shape in 0..2 {
                        let sizes: Vec<u32> = seqs.iter().enumerate().map(|(i, _)| if shape == 0 { 100 } else { (i as u32 % 3) * 150 }).collect();
                        let case = ChunkCase { start, last, seqs: seqs.clone(), sizes, limit, relimits: vec![] };
                        crate::common::eval_enumerated(ctx, rep, "sweep-chunks", &case, check_chunks);
                        n += 1;
                    }
                }
            }
        }
    }
    rep.sub.insert("sweep-chunks".into(), json!({"cases": n, "exhaustive": true, "scope": "start<=last<=6, all seq subsets, limits {0,250,100000}, 2 size shapes"}));
    let mut m = 0u64;
    for start in 0u64..=4 {
        for len in 0u64..=40 {
            for chunk in 1usize..=12 {
                for versions in [false, true] {
                    let case = RangeCase { start, len, chunk, versions };
                    crate::common::eval_enumerated(ctx, rep, "sweep-range", &case, check_range);
                    m += 1;
                }
            }
        }
    }
    rep.sub.insert("sweep-range".into(), json!({"cases": m, "exhaustive": true, "scope": "start<=4, len<=40, chunk 1..=12, both instantiations"}));
}

pub fn run(ctx: &Ctx, rep: &mut Report) {
    if ctx.worker == 0 && ctx.wants("sweep") {
        sweep(ctx, rep);
    }
    let (n_chunks, n_range) = match ctx.tier {
        Tier::Quick => (100_000, 30_000),
        Tier::Thorough => (10_000_000, 2_000_000),
    };
    run_prop(ctx, rep, "chunks", chunk_case(), n_chunks, 4000, check_chunks);
    run_prop(ctx, rep, "range", range_case(), n_range, 4000, check_range);
}

pub fn replay(sub: &str, case: &serde_json::Value) -> Result<CaseInfo, Fail> {
    if sub.contains("range") {
        replay_case::<RangeCase, _>(case, check_range)
    } else {
        replay_case::<ChunkCase, _>(case, check_chunks)
    }
}
