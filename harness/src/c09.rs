//! C09 – binary codecs round-trip every value and survive arbitrary peer bytes.
//! Engine E1: structured generators for every wire type (round trip), packed keys (round trip +
//! differential against the extension's crsql_pack_columns), and mutated valid frames (hostile bytes:
//! no panic, no abort, allocation bounded by the input size, valid UTF-8, accepted input re-encodes).

use std::collections::HashMap;

use bytes::BytesMut;
use klukai_types::{
    actor::{ActorId, ClusterId},
    api::SqliteValue,
    base::{CrsqlDbVersion, CrsqlSeq},
    broadcast::{BiPayload, BiPayloadV1, BroadcastV1, ChangeV1, Changeset, Timestamp, UniPayload, UniPayloadV1},
    change::Change,
    pubsub::{pack_columns, unpack_columns},
    sqlite::CrConn,
    sync::{SyncMessage, SyncMessageV1, SyncNeedV1, SyncRejectionV1, SyncStateV1, SyncTraceContextV1},
};
use proptest::prelude::*;
use serde::{Deserialize, Serialize};
use speedy::{Readable, Writable};
use uuid::Uuid;

use crate::{
    alloc,
    common::{CaseInfo, Ctx, Fail, Report, Tier, panic_msg, replay_case, run_prop},
    ensure,
};

// ---------------------------------------------------------------------------------------------
// serialisable mirror of the wire values (so that cases can be saved and replayed)

#[derive(Debug, Clone, Serialize, Deserialize, PartialEq)]
pub enum GVal {
    Null,
    Int(i64),
    /// bit pattern, so NaN payloads survive JSON
    Real(u64),
    Text(String),
    Blob(Vec<u8>),
}

#[derive(Debug, Clone, Serialize, Deserialize)]
pub struct GChange {
    pub table: String,
    pub pk: Vec<u8>,
    pub cid: String,
    pub val: GVal,
    pub col_version: i64,
    pub db_version: u64,
    pub seq: u64,
    pub site_id: [u8; 16],
    pub cl: i64,
}

#[derive(Debug, Clone, Serialize, Deserialize)]
pub enum GChangeset {
    Empty { start: u64, end: u64, ts: Option<u64> },
    Full { version: u64, changes: Vec<GChange>, s: u64, e: u64, last_seq: u64, ts: u64 },
    EmptySet { versions: Vec<(u64, u64)>, ts: u64 },
}

#[derive(Debug, Clone, Serialize, Deserialize)]
pub enum GNeed {
    Full { s: u64, e: u64 },
    Partial { version: u64, seqs: Vec<(u64, u64)> },
    Empty { ts: Option<u64> },
}

#[derive(Debug, Clone, Serialize, Deserialize)]
pub struct GState {
    pub actor: u64,
    pub heads: Vec<(u64, u64)>,
    pub need: Vec<(u64, Vec<(u64, u64)>)>,
    pub partial_need: Vec<(u64, Vec<(u64, Vec<(u64, u64)>)>)>,
    pub last_cleared_ts: Option<u64>,
}

#[derive(Debug, Clone, Serialize, Deserialize)]
pub enum GMsg {
    Uni { actor: u64, cs: GChangeset, cluster: u16, cut_cluster: bool },
    Bi { actor: u64, traceparent: Option<String>, tracestate: Option<String>, cluster: u16, cut_cluster: bool },
    State(GState),
    Changeset { actor: u64, cs: GChangeset },
    Clock(u64),
    Rejection(bool),
    Request(Vec<(u64, Vec<GNeed>)>),
}

fn to_val(v: &GVal) -> SqliteValue {
    match v {
        GVal::Null => SqliteValue::Null,
        GVal::Int(i) => SqliteValue::Integer(*i),
        GVal::Real(b) => SqliteValue::Real(klukai_types::api::Real(f64::from_bits(*b))),
        GVal::Text(s) => SqliteValue::Text(s.as_str().into()),
        GVal::Blob(b) => SqliteValue::Blob(b.as_slice().into()),
    }
}

fn to_change(c: &GChange) -> Change {
    Change {
        table: c.table.as_str().into(),
        pk: c.pk.clone(),
        cid: c.cid.as_str().into(),
        val: to_val(&c.val),
        col_version: c.col_version,
        db_version: CrsqlDbVersion(c.db_version),
        seq: CrsqlSeq(c.seq),
        site_id: c.site_id,
        cl: c.cl,
    }
}

fn to_changeset(c: &GChangeset) -> Changeset {
    match c {
        GChangeset::Empty { start, end, ts } => Changeset::Empty { versions: CrsqlDbVersion(*start)..=CrsqlDbVersion(*end), ts: ts.map(Timestamp::from) },
        GChangeset::Full { version, changes, s, e, last_seq, ts } => Changeset::Full {
            version: CrsqlDbVersion(*version),
            changes: changes.iter().map(to_change).collect(),
            seqs: CrsqlSeq(*s)..=CrsqlSeq(*e),
            last_seq: CrsqlSeq(*last_seq),
            ts: Timestamp::from(*ts),
        },
        GChangeset::EmptySet { versions, ts } => {
            Changeset::EmptySet { versions: versions.iter().map(|(s, e)| CrsqlDbVersion(*s)..=CrsqlDbVersion(*e)).collect(), ts: Timestamp::from(*ts) }
        }
    }
}

fn aid(a: u64) -> ActorId {
    ActorId(Uuid::from_u64_pair(a, a.rotate_left(17) ^ 0x5bd1_e995))
}

fn to_state(s: &GState) -> SyncStateV1 {
    let mut st = SyncStateV1 { actor_id: aid(s.actor), last_cleared_ts: s.last_cleared_ts.map(Timestamp::from), ..Default::default() };
    for (a, h) in &s.heads {
        st.heads.insert(aid(*a), CrsqlDbVersion(*h));
    }
    for (a, r) in &s.need {
        st.need.insert(aid(*a), r.iter().map(|(s, e)| CrsqlDbVersion(*s)..=CrsqlDbVersion(*e)).collect());
    }
    for (a, vs) in &s.partial_need {
        let mut m = HashMap::new();
        for (v, seqs) in vs {
            m.insert(CrsqlDbVersion(*v), seqs.iter().map(|(s, e)| CrsqlSeq(*s)..=CrsqlSeq(*e)).collect());
        }
        st.partial_need.insert(aid(*a), m);
    }
    st
}

fn to_need(n: &GNeed) -> SyncNeedV1 {
    match n {
        GNeed::Full { s, e } => SyncNeedV1::Full { versions: CrsqlDbVersion(*s)..=CrsqlDbVersion(*e) },
        GNeed::Partial { version, seqs } => SyncNeedV1::Partial { version: CrsqlDbVersion(*version), seqs: seqs.iter().map(|(s, e)| CrsqlSeq(*s)..=CrsqlSeq(*e)).collect() },
        GNeed::Empty { ts } => SyncNeedV1::Empty { ts: ts.map(Timestamp::from) },
    }
}

#[derive(Debug, Clone)]
pub enum Wire {
    Uni(UniPayload),
    Bi(BiPayload),
    Sync(SyncMessage),
}

fn to_wire(m: &GMsg) -> Wire {
    match m {
        GMsg::Uni { actor, cs, cluster, .. } => Wire::Uni(UniPayload::V1 {
            data: UniPayloadV1::Broadcast(BroadcastV1::Change(ChangeV1 { actor_id: aid(*actor), changeset: to_changeset(cs) })),
            cluster_id: ClusterId(*cluster),
        }),
        GMsg::Bi { actor, traceparent, tracestate, cluster, .. } => Wire::Bi(BiPayload::V1 {
            data: BiPayloadV1::SyncStart { actor_id: aid(*actor), trace_ctx: SyncTraceContextV1 { traceparent: traceparent.clone(), tracestate: tracestate.clone() } },
            cluster_id: ClusterId(*cluster),
        }),
        GMsg::State(s) => Wire::Sync(SyncMessage::V1(SyncMessageV1::State(to_state(s)))),
        GMsg::Changeset { actor, cs } => Wire::Sync(SyncMessage::V1(SyncMessageV1::Changeset(ChangeV1 { actor_id: aid(*actor), changeset: to_changeset(cs) }))),
        GMsg::Clock(t) => Wire::Sync(SyncMessage::V1(SyncMessageV1::Clock(Timestamp::from(*t)))),
        GMsg::Rejection(b) => Wire::Sync(SyncMessage::V1(SyncMessageV1::Rejection(if *b { SyncRejectionV1::MaxConcurrencyReached } else { SyncRejectionV1::DifferentCluster }))),
        GMsg::Request(r) => Wire::Sync(SyncMessage::V1(SyncMessageV1::Request(r.iter().map(|(a, ns)| (aid(*a), ns.iter().map(to_need).collect())).collect()))),
    }
}

fn encode(w: &Wire) -> Result<Vec<u8>, String> {
    match w {
        Wire::Uni(u) => u.write_to_vec().map_err(|e| e.to_string()),
        Wire::Bi(b) => b.write_to_vec().map_err(|e| e.to_string()),
        Wire::Sync(s) => s.write_to_vec().map_err(|e| e.to_string()),
    }
}

#[derive(Clone, Copy, Debug, Serialize, Deserialize, PartialEq)]
pub enum Kind {
    Uni,
    Bi,
    Sync,
}

/// the real decode sites: UniPayload::read_from_buffer (uni.rs), BiPayload::read_from_buffer (bi.rs),
/// SyncMessage::from_buf (read_sync_msg)
fn decode(kind: Kind, bytes: &[u8]) -> Result<Wire, String> {
    match kind {
        Kind::Uni => UniPayload::read_from_buffer(bytes).map(Wire::Uni).map_err(|e| e.to_string()),
        Kind::Bi => BiPayload::read_from_buffer(bytes).map(Wire::Bi).map_err(|e| e.to_string()),
        Kind::Sync => {
            let mut b = BytesMut::from(bytes);
            SyncMessage::from_buf(&mut b).map(Wire::Sync).map_err(|e| e.to_string())
        }
    }
}

/// seed corpus for the libFuzzer targets: valid frames / packed keys from the generators, one file each
/// (frames: first byte selects the decode site, as the target reads it)
pub fn write_corpus(dir: &std::path::Path, n: usize, seed: u64) -> std::io::Result<usize> {
    use proptest::{strategy::ValueTree, test_runner::{Config, RngSeed, TestRunner}};
    std::fs::create_dir_all(dir.join("frames"))?;
    std::fs::create_dir_all(dir.join("keys"))?;
    let mut runner = TestRunner::new(Config { rng_seed: RngSeed::Fixed(seed), failure_persistence: None, ..Config::default() });
    let mut written = 0;
    for i in 0..n {
        if let Ok(t) = msg_strategy().new_tree(&mut runner) {
            let m = t.current();
            if let Ok(bytes) = encode(&to_wire(&m)) {
                let k: u8 = match kind_of(&m) {
                    Kind::Uni => 0,
                    Kind::Bi => 1,
                    Kind::Sync => 2,
                };
                let mut b = vec![k];
                b.extend_from_slice(&bytes);
                std::fs::write(dir.join("frames").join(format!("f{i:04}")), b)?;
                written += 1;
            }
        }
        if let Ok(t) = pack_strategy().new_tree(&mut runner) {
            let c = t.current();
            let vals: Vec<SqliteValue> = c.cols.iter().map(to_val).collect();
            if let Ok(bytes) = klukai_types::pubsub::pack_columns(&vals) {
                std::fs::write(dir.join("keys").join(format!("k{i:04}")), bytes)?;
                written += 1;
            }
        }
    }
    Ok(written)
}

fn kind_of(m: &GMsg) -> Kind {
    match m {
        GMsg::Uni { .. } => Kind::Uni,
        GMsg::Bi { .. } => Kind::Bi,
        _ => Kind::Sync,
    }
}

// ---------------------------------------------------------------------------------------------
// generators

fn edge_u64() -> impl Strategy<Value = u64> {
    prop_oneof![
        4 => 0u64..20,
        2 => any::<u64>(),
        1 => Just(u64::MAX),
        1 => Just(0u64),
        1 => Just(1u64 << 32),
        1 => Just((1u64 << 63) - 1),
    ]
}

fn edge_i64() -> impl Strategy<Value = i64> {
    prop_oneof![
        3 => -3i64..300,
        2 => any::<i64>(),
        1 => Just(i64::MIN),
        1 => Just(i64::MAX),
        1 => prop::sample::select(vec![0i64, 127, 128, 255, 256, 32767, 32768, 65535, 65536, (1 << 23) - 1, 1 << 23, (1 << 24), (1 << 31) - 1, 1 << 31, 1 << 32, (1 << 39), (1 << 40), (1 << 47), 1 << 48, (1 << 55), 1 << 56, -1, -128, -129, -32768, -32769]),
    ]
}

fn text_strategy() -> impl Strategy<Value = String> {
    prop_oneof![
        4 => "[ -~]{0,12}",
        2 => "\\PC{0,20}",
        1 => Just(String::new()),
        1 => (120usize..300).prop_map(|n| "é".repeat(n)),
        1 => prop::sample::select(vec![127usize, 128, 255, 256, 32767, 32768, 65535, 65536, 70_000]).prop_map(|n| "x".repeat(n)),
    ]
}

fn blob_strategy() -> impl Strategy<Value = Vec<u8>> {
    prop_oneof![
        4 => proptest::collection::vec(any::<u8>(), 0..24),
        1 => Just(vec![]),
        1 => prop::sample::select(vec![127usize, 128, 255, 256, 511, 512, 513, 32767, 32768, 65535, 65536, 70_000]).prop_map(|n| vec![0xAB; n]),
    ]
}

pub fn val_strategy() -> impl Strategy<Value = GVal> {
    prop_oneof![
        1 => Just(GVal::Null),
        3 => edge_i64().prop_map(GVal::Int),
        2 => prop_oneof![
            any::<f64>().prop_map(|f| f.to_bits()),
            Just(f64::NAN.to_bits()),
            Just(0f64.to_bits()),
            Just((-0f64).to_bits()),
            Just(f64::INFINITY.to_bits()),
            Just(f64::NEG_INFINITY.to_bits()),
            Just(0x7ff8_0000_dead_beefu64),
        ].prop_map(GVal::Real),
        3 => text_strategy().prop_map(GVal::Text),
        3 => blob_strategy().prop_map(GVal::Blob),
    ]
}

fn change_strategy() -> impl Strategy<Value = GChange> {
    ("[a-z_]{0,10}", blob_strategy(), "[a-z_0-9-]{0,8}", val_strategy(), edge_i64(), edge_u64(), edge_u64(), any::<[u8; 16]>(), edge_i64())
        .prop_map(|(table, pk, cid, val, col_version, db_version, seq, site_id, cl)| GChange { table, pk, cid, val, col_version, db_version, seq, site_id, cl })
}

fn ranges_strategy(max: usize) -> impl Strategy<Value = Vec<(u64, u64)>> {
    proptest::collection::vec((edge_u64(), edge_u64()), 0..max)
}

fn changeset_strategy() -> impl Strategy<Value = GChangeset> {
    prop_oneof![
        2 => (edge_u64(), edge_u64(), proptest::option::of(edge_u64())).prop_map(|(start, end, ts)| GChangeset::Empty { start, end, ts }),
        5 => (edge_u64(), proptest::collection::vec(change_strategy(), 0..6), edge_u64(), edge_u64(), edge_u64(), edge_u64())
            .prop_map(|(version, changes, s, e, last_seq, ts)| GChangeset::Full { version, changes, s, e, last_seq, ts }),
        2 => (ranges_strategy(5), edge_u64()).prop_map(|(versions, ts)| GChangeset::EmptySet { versions, ts }),
    ]
}

fn need_strategy() -> impl Strategy<Value = GNeed> {
    prop_oneof![
        (edge_u64(), edge_u64()).prop_map(|(s, e)| GNeed::Full { s, e }),
        (edge_u64(), ranges_strategy(4)).prop_map(|(version, seqs)| GNeed::Partial { version, seqs }),
        proptest::option::of(edge_u64()).prop_map(|ts| GNeed::Empty { ts }),
    ]
}

fn state_strategy() -> impl Strategy<Value = GState> {
    (
        any::<u64>(),
        proptest::collection::vec((0u64..6, edge_u64()), 0..5),
        proptest::collection::vec((0u64..6, ranges_strategy(4)), 0..4),
        proptest::collection::vec((0u64..6, proptest::collection::vec((0u64..9, ranges_strategy(3)), 0..4)), 0..4),
        proptest::option::of(edge_u64()),
    )
        .prop_map(|(actor, heads, need, partial_need, last_cleared_ts)| GState { actor, heads, need, partial_need, last_cleared_ts })
}

pub fn msg_strategy() -> impl Strategy<Value = GMsg> {
    prop_oneof![
        4 => (any::<u64>(), changeset_strategy(), prop_oneof![Just(0u16), Just(1), any::<u16>()], any::<bool>())
            .prop_map(|(actor, cs, cluster, cut_cluster)| GMsg::Uni { actor, cs, cluster, cut_cluster }),
        2 => (any::<u64>(), proptest::option::of("[ -~]{0,60}"), proptest::option::of("\\PC{0,20}"), prop_oneof![Just(0u16), any::<u16>()], any::<bool>())
            .prop_map(|(actor, traceparent, tracestate, cluster, cut_cluster)| GMsg::Bi { actor, traceparent, tracestate, cluster, cut_cluster }),
        3 => state_strategy().prop_map(GMsg::State),
        4 => (any::<u64>(), changeset_strategy()).prop_map(|(actor, cs)| GMsg::Changeset { actor, cs }),
        1 => edge_u64().prop_map(GMsg::Clock),
        1 => any::<bool>().prop_map(GMsg::Rejection),
        3 => proptest::collection::vec((0u64..5, proptest::collection::vec(need_strategy(), 0..5)), 0..4).prop_map(GMsg::Request),
    ]
}

// ---------------------------------------------------------------------------------------------
// round trip

fn wire_equal(a: &Wire, b: &Wire) -> bool {
    match (a, b) {
        // HashMaps inside: rely on the derived (order independent) PartialEq unless floats are involved
        (Wire::Sync(SyncMessage::V1(SyncMessageV1::State(x))), Wire::Sync(SyncMessage::V1(SyncMessageV1::State(y)))) => x == y,
        // everything else has deterministic Debug output and may contain NaN
        _ => format!("{a:?}") == format!("{b:?}"),
    }
}

pub fn check_roundtrip(m: &GMsg, info: &mut CaseInfo) -> Result<(), Fail> {
    let w = to_wire(m);
    let bytes = encode(&w).map_err(|e| Fail::new("encode", e))?;
    let kind = kind_of(m);
    let back = decode(kind, &bytes).map_err(|e| Fail::new("decode-own-encoding", format!("{e}; {} bytes", bytes.len())))?;
    ensure!(wire_equal(&w, &back), "roundtrip-equal", "decoded value differs:\n  sent {w:?}\n  got  {back:?}");
    // re-encoding yields the same bytes (maps with <2 entries or no maps at all)
    let has_multi_map = matches!(m, GMsg::State(s) if s.heads.len() > 1 || s.need.len() > 1 || s.partial_need.len() > 1 || s.partial_need.iter().any(|(_, v)| v.len() > 1));
    if !has_multi_map {
        let again = encode(&back).map_err(|e| Fail::new("re-encode", e))?;
        ensure!(again == bytes, "roundtrip-bytes", "re-encoding differs ({} vs {} bytes)", again.len(), bytes.len());
    }
    // frames written by older nodes lack the trailing cluster id: it must default to 0
    match m {
        GMsg::Uni { cut_cluster: true, .. } => {
            let cut = &bytes[..bytes.len() - 2];
            match decode(kind, cut).map_err(|e| Fail::new("decode-without-cluster", e))? {
                Wire::Uni(UniPayload::V1 { data, cluster_id }) => {
                    ensure!(cluster_id == ClusterId(0), "cluster-defaults-to-0", "got cluster {cluster_id}");
                    let Wire::Uni(UniPayload::V1 { data: d0, .. }) = &w else { unreachable!() };
                    ensure!(format!("{data:?}") == format!("{d0:?}"), "cut-frame-data-equal", "data differs after cutting the cluster id");
                }
                _ => unreachable!(),
            }
            info.class("frame-without-cluster-id");
        }
        GMsg::Bi { cut_cluster: true, .. } => {
            let cut = &bytes[..bytes.len() - 2];
            match decode(kind, cut).map_err(|e| Fail::new("decode-without-cluster", e))? {
                Wire::Bi(BiPayload::V1 { data, cluster_id }) => {
                    ensure!(cluster_id == ClusterId(0), "cluster-defaults-to-0", "got cluster {cluster_id}");
                    let Wire::Bi(BiPayload::V1 { data: d0, .. }) = &w else { unreachable!() };
                    ensure!(format!("{data:?}") == format!("{d0:?}"), "cut-frame-data-equal", "data differs after cutting the cluster id");
                }
                _ => unreachable!(),
            }
            info.class("frame-without-cluster-id");
        }
        _ => {}
    }
    // classification: nesting >= 3 levels or >= 2 value kinds
    let kinds = |cs: &GChangeset| -> usize {
        match cs {
            GChangeset::Full { changes, .. } => {
                let mut k = std::collections::HashSet::new();
                for c in changes {
                    k.insert(std::mem::discriminant(&c.val));
                }
                k.len()
            }
            _ => 0,
        }
    };
    let nt = match m {
        GMsg::Uni { cs, .. } | GMsg::Changeset { cs, .. } => {
            if matches!(cs, GChangeset::Full { changes, .. } if !changes.is_empty()) {
                info.class("full-changeset-with-changes");
            }
            kinds(cs) >= 2 || matches!(cs, GChangeset::EmptySet { versions, .. } if !versions.is_empty())
        }
        GMsg::State(s) => {
            info.class("sync-state");
            !s.partial_need.is_empty() && !s.need.is_empty()
        }
        GMsg::Request(r) => r.iter().any(|(_, n)| n.len() >= 2),
        GMsg::Bi { traceparent, .. } => traceparent.is_some(),
        _ => false,
    };
    if bytes.len() >= 65536 {
        info.class("frame>=64KiB");
    }
    info.nontrivial = nt;
    Ok(())
}

// ---------------------------------------------------------------------------------------------
// packed keys

#[derive(Debug, Clone, Serialize, Deserialize)]
pub struct PackCase {
    pub cols: Vec<GVal>,
}

pub fn pack_strategy() -> impl Strategy<Value = PackCase> {
    prop_oneof![
        6 => proptest::collection::vec(val_strategy(), 0..6),
        2 => proptest::collection::vec(val_strategy(), 6..40),
        1 => proptest::collection::vec(prop_oneof![Just(GVal::Null), edge_i64().prop_map(GVal::Int)], 200..=255),
    ]
    .prop_map(|cols| PackCase { cols })
}

thread_local! {
    static EXT_CONN: std::cell::RefCell<Option<CrConn>> = const { std::cell::RefCell::new(None) };
}

fn ext_pack(vals: &[SqliteValue]) -> Result<Vec<u8>, String> {
    EXT_CONN.with(|c| {
        let mut c = c.borrow_mut();
        if c.is_none() {
            *c = Some(CrConn::init(rusqlite::Connection::open_in_memory().map_err(|e| e.to_string())?).map_err(|e| e.to_string())?);
        }
        let conn = c.as_ref().unwrap();
        let sql = format!("SELECT crsql_pack_columns({})", vec!["?"; vals.len()].join(","));
        let mut st = conn.prepare_cached(&sql).map_err(|e| e.to_string())?;
        st.query_row(rusqlite::params_from_iter(vals.iter()), |r| r.get::<_, Vec<u8>>(0)).map_err(|e| e.to_string())
    })
}

fn vals_equal(a: &[SqliteValue], b: &[SqliteValue]) -> bool {
    a.len() == b.len()
        && a.iter().zip(b.iter()).all(|(x, y)| match (x, y) {
            (SqliteValue::Real(p), SqliteValue::Real(q)) => p.0.to_bits() == q.0.to_bits(),
            _ => x == y,
        })
}

pub fn check_pack(case: &PackCase, info: &mut CaseInfo) -> Result<(), Fail> {
    let vals: Vec<SqliteValue> = case.cols.iter().map(to_val).collect();
    let packed = pack_columns(&vals).map_err(|e| Fail::new("pack", e.to_string()))?;
    let unpacked = match std::panic::catch_unwind(|| unpack_columns(&packed).map(|u| u.iter().map(|v| v.to_owned()).collect::<Vec<_>>())) {
        Ok(Ok(u)) => u,
        Ok(Err(e)) => return Err(classify_pack(Fail::new("unpack-own-packing", format!("{e}; cols {:?}", brief(&case.cols))), &case.cols)),
        Err(p) => return Err(classify_pack(Fail::new("unpack-own-packing", format!("panicked: {}; cols {:?}", panic_msg(&p), brief(&case.cols))), &case.cols)),
    };
    if !vals_equal(&vals, &unpacked) {
        return Err(classify_pack(
            Fail::new("pack-roundtrip", format!("unpack(pack(x)) != x: x={:?} got={:?}", brief(&case.cols), unpacked.iter().map(|v| format!("{v:?}").chars().take(40).collect::<String>()).collect::<Vec<_>>())),
            &case.cols,
        ));
    }
    // differential against the database extension (SQLite limits the number of function arguments)
    // (SQLite turns a bound NaN into NULL, so the extension can never be handed one: no differential)
    let has_nan = case.cols.iter().any(|c| matches!(c, GVal::Real(b) if f64::from_bits(*b).is_nan()));
    if has_nan {
        info.class("nan-column(no-differential:sqlite-binds-nan-as-null)");
    }
    if !vals.is_empty() && vals.len() <= 100 && !has_nan {
        let ext = ext_pack(&vals).map_err(|e| Fail::new("ext-pack", e))?;
        ensure!(ext == packed, "pack-byte-compatible", "pack_columns differs from crsql_pack_columns for {:?}: ours {} ext {}", brief(&case.cols), hex::encode(&packed[..packed.len().min(48)]), hex::encode(&ext[..ext.len().min(48)]));
        let from_ext = unpack_columns(&ext).map_err(|e| Fail::new("unpack-ext-packing", e.to_string()))?;
        let from_ext: Vec<_> = from_ext.iter().map(|v| v.to_owned()).collect();
        ensure!(vals_equal(&vals, &from_ext), "unpack-ext-equal", "unpack(crsql_pack_columns(x)) != x for {:?}", brief(&case.cols));
        info.class("differential-vs-extension");
    }
    let kinds: std::collections::HashSet<_> = case.cols.iter().map(std::mem::discriminant).collect();
    let border = case.cols.iter().any(|v| match v {
        GVal::Int(i) => *i >= 128 || *i < 0,
        GVal::Text(s) => s.len() >= 128,
        GVal::Blob(b) => b.len() >= 128,
        _ => false,
    });
    if border {
        info.class("value-crossing-a-byte-width-border");
    }
    if case.cols.len() >= 200 {
        info.class(">=200-columns");
    }
    info.nontrivial = kinds.len() >= 2 || border;
    Ok(())
}

fn brief(cols: &[GVal]) -> Vec<String> {
    cols.iter()
        .take(8)
        .map(|c| match c {
            GVal::Text(s) if s.len() > 16 => format!("Text(len {})", s.len()),
            GVal::Blob(b) if b.len() > 16 => format!("Blob(len {})", b.len()),
            o => format!("{o:?}"),
        })
        .collect()
}

fn classify_pack(f: Fail, cols: &[GVal]) -> Fail {
    // signature of the sign-extension defect: some integer or length has its top bit set within its
    // minimal big-endian width (128..=255, 32768..=65535, ...), or is zero-width
    let top_bit = |v: u64| -> bool {
        if v == 0 {
            return true; // zero-width integer
        }
        let nbytes = (64 - v.leading_zeros() as usize).div_ceil(8);
        nbytes < 8 && (v >> (nbytes * 8 - 1)) & 1 == 1
    };
    let hit = cols.iter().any(|c| match c {
        GVal::Int(i) => *i >= 0 && top_bit(*i as u64),
        GVal::Text(s) => top_bit(s.len() as u64),
        GVal::Blob(b) => top_bit(b.len() as u64),
        _ => false,
    });
    if hit { f.finding("C09-unpack-sign-extension") } else { f }
}

// ---------------------------------------------------------------------------------------------
// hostile bytes

#[derive(Debug, Clone, Serialize, Deserialize)]
pub enum Mutation {
    Truncate(u16),
    FlipBit(u16, u8),
    SetByte(u16, u8),
    /// overwrite 4 bytes little-endian at offset
    Put32(u16, u32),
    /// overwrite 8 bytes little-endian at offset
    Put64(u16, u64),
    Append(Vec<u8>),
}

#[derive(Debug, Clone, Serialize, Deserialize)]
pub struct HostileCase {
    pub base: GMsg,
    pub muts: Vec<Mutation>,
    /// decode with a decoder of another message family
    pub cross: Option<Kind>,
}

#[derive(Debug, Clone, Serialize, Deserialize)]
pub struct RawCase {
    pub kind: Kind,
    pub bytes: Vec<u8>,
}

fn hostile_len32() -> impl Strategy<Value = u32> {
    prop_oneof![Just(u32::MAX), Just(1u32 << 31), Just((1u32 << 31) - 1), Just(1 << 24), Just(1 << 16), 0u32..64, any::<u32>()]
}
fn hostile_len64() -> impl Strategy<Value = u64> {
    prop_oneof![Just(u64::MAX), Just(1u64 << 63), Just(1u64 << 32), Just(1u64 << 31), Just((1u64 << 44) + 7), Just(1 << 20), 0u64..64, any::<u64>()]
}

fn mutation_strategy() -> impl Strategy<Value = Mutation> {
    prop_oneof![
        2 => any::<u16>().prop_map(Mutation::Truncate),
        2 => (any::<u16>(), 0u8..8).prop_map(|(o, b)| Mutation::FlipBit(o, b)),
        2 => (any::<u16>(), prop_oneof![0u8..8, any::<u8>()]).prop_map(|(o, b)| Mutation::SetByte(o, b)),
        3 => (any::<u16>(), hostile_len32()).prop_map(|(o, v)| Mutation::Put32(o, v)),
        3 => (any::<u16>(), hostile_len64()).prop_map(|(o, v)| Mutation::Put64(o, v)),
        1 => proptest::collection::vec(any::<u8>(), 0..12).prop_map(Mutation::Append),
    ]
}

pub fn hostile_strategy() -> impl Strategy<Value = HostileCase> {
    (msg_strategy(), proptest::collection::vec(mutation_strategy(), 1..4), prop_oneof![8 => Just(None), 1 => Just(Some(Kind::Uni)), 1 => Just(Some(Kind::Bi)), 1 => Just(Some(Kind::Sync))])
        .prop_map(|(base, muts, cross)| HostileCase { base, muts, cross })
}

fn apply_mutations(mut b: Vec<u8>, muts: &[Mutation]) -> Vec<u8> {
    for m in muts {
        let len = b.len();
        let at = |o: u16| if len == 0 { 0 } else { ((o as usize) * len) >> 16 };
        match m {
            Mutation::Truncate(o) => b.truncate(at(*o)),
            Mutation::FlipBit(o, bit) => {
                if len > 0 {
                    let i = at(*o);
                    b[i] ^= 1 << bit;
                }
            }
            Mutation::SetByte(o, v) => {
                if len > 0 {
                    let i = at(*o);
                    b[i] = *v;
                }
            }
            Mutation::Put32(o, v) => {
                let i = at(*o);
                for (k, x) in v.to_le_bytes().iter().enumerate() {
                    if i + k < len {
                        b[i + k] = *x;
                    }
                }
            }
            Mutation::Put64(o, v) => {
                let i = at(*o);
                for (k, x) in v.to_le_bytes().iter().enumerate() {
                    if i + k < len {
                        b[i + k] = *x;
                    }
                }
            }
            Mutation::Append(v) => b.extend_from_slice(v),
        }
    }
    b
}

fn texts_valid(w: &Wire) -> Result<(), String> {
    fn cs(c: &Changeset) -> Result<(), String> {
        for ch in c.changes() {
            if let SqliteValue::Text(t) = &ch.val {
                if std::str::from_utf8(t.as_bytes()).is_err() {
                    return Err(format!("change value text is not valid UTF-8: {:?}", hex::encode(&t.as_bytes()[..t.len().min(32)])));
                }
            }
            for s in [ch.table.as_str(), ch.cid.as_str()] {
                if std::str::from_utf8(s.as_bytes()).is_err() {
                    return Err("table/column name not valid UTF-8".into());
                }
            }
        }
        Ok(())
    }
    match w {
        Wire::Uni(UniPayload::V1 { data: UniPayloadV1::Broadcast(BroadcastV1::Change(c)), .. }) => cs(&c.changeset),
        Wire::Sync(SyncMessage::V1(SyncMessageV1::Changeset(c))) => cs(&c.changeset),
        Wire::Bi(BiPayload::V1 { data: BiPayloadV1::SyncStart { trace_ctx, .. }, .. }) => {
            for s in [&trace_ctx.traceparent, &trace_ctx.tracestate].into_iter().flatten() {
                if std::str::from_utf8(s.as_bytes()).is_err() {
                    return Err("trace context not valid UTF-8".into());
                }
            }
            Ok(())
        }
        _ => Ok(()),
    }
}

/// hard cap for one allocation while decoding: far above any legitimate frame share, far below "26 TB"
const HARD_CAP: usize = 1 << 30;

fn alloc_bound(input_len: usize) -> usize {
    64 * 1024 + 32 * input_len
}

pub fn hostile_decode(kind: Kind, bytes: &[u8], info: &mut CaseInfo) -> Result<(), Fail> {
    let (res, st) = alloc::tracked(HARD_CAP, || std::panic::catch_unwind(std::panic::AssertUnwindSafe(|| decode(kind, bytes))));
    let sig = |f: Fail, msg: &str| -> Fail {
        // known-finding signatures keyed by panic site / failure kind
        if msg.contains("Invalid changeset variant tag") || msg.contains("Invalid SyncNeedV1 variant tag") {
            f.finding("C09-panic-on-unknown-variant-tag")
        } else if msg.contains("capacity overflow") || msg.contains("refused/failed") || msg.contains("Hash table capacity") {
            f.finding("C09-unchecked-capacity-from-wire")
        } else {
            f
        }
    };
    match res {
        Err(p) => {
            let m = panic_msg(&p);
            let f = Fail::new("decode-never-panics", format!("{kind:?} decoder panicked on {} bytes: {m} (peak alloc {} B, refused request {} B)", bytes.len(), st.peak, st.refused));
            Err(sig(f, &m))
        }
        Ok(r) => {
            if st.peak > alloc_bound(bytes.len()) {
                let f = Fail::new(
                    "allocation-bounded-by-input",
                    format!("{kind:?} decoder allocated {} B peak (largest request {} B) for a {} byte frame (bound {} B); result ok={}", st.peak, st.max_single, bytes.len(), alloc_bound(bytes.len()), r.is_ok()),
                );
                return Err(f.finding("C09-unchecked-capacity-from-wire"));
            }
            if let Ok(w) = &r {
                info.class("hostile-frame-accepted");
                if let Err(e) = texts_valid(w) {
                    return Err(Fail::new("text-is-valid-utf8", e).finding("C09-text-utf8-unchecked"));
                }
                let again = std::panic::catch_unwind(std::panic::AssertUnwindSafe(|| encode(w)));
                match again {
                    Ok(Ok(_)) => {}
                    Ok(Err(e)) => return Err(Fail::new("accepted-input-re-encodes", e)),
                    Err(p) => return Err(Fail::new("accepted-input-re-encodes", format!("re-encode panicked: {}", panic_msg(&p)))),
                }
            } else {
                info.class("hostile-frame-rejected");
            }
            Ok(())
        }
    }
}

pub fn check_hostile(case: &HostileCase, info: &mut CaseInfo) -> Result<(), Fail> {
    let w = to_wire(&case.base);
    let bytes = encode(&w).map_err(|e| Fail::new("encode", e))?;
    let mutated = apply_mutations(bytes.clone(), &case.muts);
    let kind = case.cross.unwrap_or(kind_of(&case.base));
    // non-trivial: the frame still passes the outer tags (reaches an inner / hand-written decoder)
    let outer_ok = mutated.len() >= 8 && mutated[..4] == bytes[..4] && mutated[4..8] == bytes[4..8];
    if outer_ok && kind == kind_of(&case.base) {
        info.class("passes-outer-tags");
        info.nontrivial = mutated != bytes;
    }
    hostile_decode(kind, &mutated, info)
}

pub fn check_raw(case: &RawCase, info: &mut CaseInfo) -> Result<(), Fail> {
    info.nontrivial = case.bytes.len() > 8;
    hostile_decode(case.kind, &case.bytes, info)
}

#[derive(Debug, Clone, Serialize, Deserialize)]
pub struct HostilePack {
    pub cols: Vec<GVal>,
    pub muts: Vec<Mutation>,
}

pub fn hostile_pack_strategy() -> impl Strategy<Value = HostilePack> {
    (proptest::collection::vec(val_strategy(), 0..5), proptest::collection::vec(mutation_strategy(), 0..3)).prop_map(|(cols, muts)| HostilePack { cols, muts })
}

pub fn check_hostile_pack(case: &HostilePack, info: &mut CaseInfo) -> Result<(), Fail> {
    let vals: Vec<SqliteValue> = case.cols.iter().map(to_val).collect();
    let packed = pack_columns(&vals).map_err(|e| Fail::new("pack", e.to_string()))?;
    let mutated = apply_mutations(packed.clone(), &case.muts);
    unpack_hostile(&mutated, info)?;
    info.nontrivial = mutated != packed && !mutated.is_empty();
    Ok(())
}

pub fn unpack_hostile(bytes: &[u8], info: &mut CaseInfo) -> Result<(), Fail> {
    // the decoder alone is measured; the owned copies the oracle needs (512-byte inline buffers per value) are made
    // outside the tracked section
    let (res, st) = alloc::tracked(HARD_CAP, || std::panic::catch_unwind(std::panic::AssertUnwindSafe(|| unpack_columns(bytes).map(|v| v.len()))));
    let res = res.map(|r| r.and_then(|_| unpack_columns(bytes).map(|v| v.iter().map(|x| x.to_owned()).collect::<Vec<_>>())));
    match res {
        Err(p) => {
            let m = panic_msg(&p);
            let f = Fail::new("unpack-never-panics", format!("unpack_columns panicked on {} ({} bytes): {m}", hex::encode(&bytes[..bytes.len().min(40)]), bytes.len()));
            Err(if m.contains("shift left") { f.finding("C09-unpack-sign-extension") } else { f.finding("C09-unpack-panics-on-malformed-key") })
        }
        Ok(r) => {
            // one input byte can be one column: a 32-byte reference in a vector that grows by doubling
            ensure!(st.peak <= 64 * 1024 + 128 * bytes.len(), "allocation-bounded-by-input", "unpack_columns allocated {} B for {} input bytes", st.peak, bytes.len());
            if let Ok(vals) = r {
                info.class("hostile-key-accepted");
                for v in &vals {
                    if let SqliteValue::Text(t) = v {
                        ensure!(std::str::from_utf8(t.as_bytes()).is_ok(), "text-is-valid-utf8", "unpacked text is not UTF-8");
                    }
                }
            }
            Ok(())
        }
    }
}

// ---------------------------------------------------------------------------------------------

pub fn run(ctx: &Ctx, rep: &mut Report) {
    alloc::install_hook();
    let quiet = std::panic::take_hook();
    if std::env::var_os("KVERIF_LOUD").is_none() {
        std::panic::set_hook(Box::new(|_| {}));
    }
    let (n_rt, n_pack, n_host, n_hpack) = match ctx.tier {
        Tier::Quick => (60_000, 60_000, 200_000, 100_000),
        Tier::Thorough => (2_000_000, 2_000_000, 8_000_000, 3_000_000),
    };
    run_prop(ctx, rep, "roundtrip", msg_strategy(), n_rt, 3000, check_roundtrip);
    run_prop(ctx, rep, "pack", pack_strategy(), n_pack, 3000, check_pack);
    run_prop(ctx, rep, "hostile-frames", hostile_strategy(), n_host, 3000, check_hostile);
    run_prop(ctx, rep, "hostile-keys", hostile_pack_strategy(), n_hpack, 3000, check_hostile_pack);
    std::panic::set_hook(quiet);
}

pub fn replay(sub: &str, case: &serde_json::Value) -> Result<CaseInfo, Fail> {
    alloc::install_hook();
    std::panic::set_hook(Box::new(|_| {}));
    match sub {
        s if s.starts_with("roundtrip") => replay_case::<GMsg, _>(case, check_roundtrip),
        s if s.starts_with("pack") => replay_case::<PackCase, _>(case, check_pack),
        s if s.starts_with("hostile-frames") => replay_case::<HostileCase, _>(case, check_hostile),
        s if s.starts_with("hostile-keys") => replay_case::<HostilePack, _>(case, check_hostile_pack),
        s if s.starts_with("raw-key") => replay_case::<RawCase, _>(case, |c, i| unpack_hostile(&c.bytes, i)),
        _ => replay_case::<RawCase, _>(case, check_raw),
    }
}
