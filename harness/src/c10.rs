//! C10 – load shedding and duplicate suppression never lose a change for good.
//! Engine E2 with the *real* `handle_changes` loop (hook H2) on the receiver: changesets of 1-3 origin
//! actors (complete, partial seq-range chunks, Empty, exact duplicates) are pushed through the real
//! ingest channel while the harness holds the write connection for a generated part of the arrival
//! sequence (the overload: jobs block, the queue overflows, the oldest entries are shed).  After the
//! overload ended every changeset that is not yet contained is offered again (as sync does every
//! round), at most 4 rounds.  Oracle: afterwards every offered changeset is contained in the
//! bookkeeping, the advertised state equals the set model of everything offered, and the tables equal
//! the visibility shadow.

use std::time::{Duration, Instant};

use klukai_agent::agent::handle_changes;
use klukai_types::{
    base::CrsqlDbVersion,
    broadcast::{ChangeSource, ChangeV1, Changeset},
    tripwire::Tripwire,
};
use proptest::prelude::*;
use serde::{Deserialize, Serialize};

use crate::{
    c01::{hot_stmt_strategy, with_world},
    common::{CaseInfo, Ctx, Fail, Report, Tier, replay_case, run_prop},
    ensure,
    sim::Stmt,
    world::{Effects, NeedSpec, World, infra},
};

#[derive(Debug, Clone, Serialize, Deserialize)]
pub struct Case {
    pub origins: u8,
    pub queue_len: u8,
    pub apply_len: u8,
    pub chan_len: u8,
    /// transactions of the origins (origin index, statements)
    pub txs: Vec<(u8, Vec<Stmt>)>,
    /// extra chunks cut by the origins themselves: (origin, need)
    pub cuts: Vec<(u8, NeedSpec)>,
    /// arrival sequence: picks into the message pool (duplicates allowed)
    pub arrivals: Vec<u16>,
    /// the write connection is held while arrivals [hold_from, hold_from+hold_len) are pushed
    pub hold_from: u8,
    pub hold_len: u8,
    /// offer only sync answers (the origin's *current* view: Empties for versions it overwrote since), never the
    /// original broadcasts of those versions
    #[serde(default)]
    pub sync_only: bool,
}

/// Three origins keep overwriting the same few rows (every earlier version ends up empty at its origin), then each
/// writes one large version; the receiver is offered the origins' current view only: Empties of several different
/// ranges and many short chunks of the large versions - about twice as many distinct ones as the five ingest jobs and
/// the queue take together - all while its write connection is held.  Whatever is shed, Empties included, must be
/// taken up when it is offered again.  The queue is longer than the number of distinct (actor, version) keys, so the
/// node's duplicate-suppression cache is not flushed wholesale in between.
pub fn shed_empties_strategy(max_arrivals: usize) -> impl Strategy<Value = Case> {
    let per_origin = || {
        (
            proptest::collection::vec((0u8..2, any::<u16>()), 2..5),
            (any::<u16>(), any::<u16>(), 0u8..3, 0u8..3),
            proptest::collection::vec((any::<u8>(), any::<u8>()), 3..7),
            proptest::collection::vec(proptest::collection::vec((any::<u8>(), 0u8..160), 1..3), 24..40),
        )
    };
    (22u8..=26, 1u8..=2, proptest::collection::vec(per_origin(), 3), proptest::collection::vec(any::<u16>(), 150..=max_arrivals.max(151)), 0u8..3).prop_map(|(queue_len, apply_len, origins, arrivals, hold_from)| {
        let mut txs: Vec<(u8, Vec<Stmt>)> = vec![];
        let mut cuts: Vec<(u8, NeedSpec)> = vec![];
        for (o, (small, (t1, t2, k1, k2), fulls, partials)) in origins.into_iter().enumerate() {
            let o = o as u8;
            let n_small = small.len();
            txs.extend(small.into_iter().map(|(key, tag)| (o, vec![Stmt::UpsertKv { key, tag }])));
            txs.push((o, vec![Stmt::MultiKv { n: 5, tag: t1 }, Stmt::UpsertBig { key: k1, size_class: 2, tag: t2 }, Stmt::UpsertBig { key: k2, size_class: 3, tag: t1 }, Stmt::UpsertBig { key: (k2 + 1) % 3, size_class: 2, tag: t2 }]));
            cuts.extend(fulls.into_iter().map(|(from, len)| (o, NeedSpec::Full { from, len })));
            cuts.extend(partials.into_iter().map(|ranges| (o, NeedSpec::Partial { ver: n_small as u8, ranges })));
        }
        Case { origins: 3, queue_len, apply_len, chan_len: 8, txs, cuts, arrivals, hold_from, hold_len: 255, sync_only: true }
    })
}

fn tx_strategy() -> impl Strategy<Value = Vec<Stmt>> {
    proptest::collection::vec(
        prop_oneof![
            3 => hot_stmt_strategy(),
            2 => (0u8..3, 0u8..3, any::<u16>()).prop_map(|(key, size_class, tag)| Stmt::UpsertBig { key, size_class, tag }),
            2 => (2u8..6, any::<u16>()).prop_map(|(n, tag)| Stmt::MultiKv { n, tag }),
        ],
        1..6,
    )
}

pub fn case_strategy(max_arrivals: usize) -> impl Strategy<Value = Case> {
    (
        1u8..=3,
        1u8..=6,
        1u8..=4,
        1u8..=8,
        proptest::collection::vec((0u8..3, tx_strategy()), 1..6),
        proptest::collection::vec((0u8..3, (any::<u8>(), proptest::collection::vec((any::<u8>(), 0u8..2), 1..3)).prop_map(|(ver, ranges)| NeedSpec::Partial { ver, ranges })), 4..24),
        proptest::collection::vec(any::<u16>(), 10..=max_arrivals),
        any::<u8>(),
        any::<u8>(),
    )
        .prop_map(|(origins, queue_len, apply_len, chan_len, txs, cuts, arrivals, hold_from, hold_len)| Case { origins, queue_len, apply_len, chan_len, txs, cuts, arrivals, hold_from, hold_len, sync_only: false })
}

/// few distinct (actor, version) keys, many chunks of them, a queue a little longer than the number
/// of keys: the node's duplicate-suppression cache is then never trimmed wholesale, so a changeset
/// that was shed but stays marked as seen can never come back
pub fn few_keys_strategy(max_arrivals: usize) -> impl Strategy<Value = Case> {
    (
        2u8..=3,
        4u8..=6,
        1u8..=2,
        4u8..=8,
        proptest::collection::vec(tx_strategy(), 3),
        proptest::collection::vec((0u8..3, (0u8..1, proptest::collection::vec((any::<u8>(), 0u8..2), 1..3)).prop_map(|(ver, ranges)| NeedSpec::Partial { ver, ranges })), 12..30),
        proptest::collection::vec(any::<u16>(), 30..=max_arrivals.max(31)),
        0u8..6,
        40u8..60,
    )
        .prop_map(|(origins, queue_len, apply_len, chan_len, txs, cuts, arrivals, hold_from, hold_len)| Case {
            origins,
            queue_len,
            apply_len,
            chan_len,
            txs: txs.into_iter().enumerate().take(origins as usize).map(|(i, t)| (i as u8, t)).collect(),
            cuts,
            arrivals,
            hold_from,
            hold_len,
            sync_only: false,
        })
}

async fn contained(w: &World, r: usize, c: &ChangeV1) -> bool {
    let booked = { w.nodes[r].bookie.read::<&str, _>("c10", None).await.get(&c.actor_id).cloned() };
    match booked {
        None => false,
        Some(b) => b.read::<&str, _>("c10", None).await.contains_all(c.versions(), c.seqs()),
    }
}

/// wait until the ingest loop took up everything sent so far and finished the jobs it spawned for it
async fn settle(w: &World, r: usize, tx: &klukai_types::channel::CorroSender<(ChangeV1, ChangeSource)>, marker: klukai_types::actor::ActorId, no: &mut u64) -> Result<(), Fail> {
    *no += 1;
    // one bookkeeping key for all markers (an ever growing partial version of the marker actor), so
    // that the markers do not fill - and thereby flush - the node's seen-cache
    let m = ChangeV1 {
        actor_id: marker,
        changeset: Changeset::Full {
            version: CrsqlDbVersion(1),
            changes: vec![],
            seqs: klukai_types::base::CrsqlSeq(*no)..=klukai_types::base::CrsqlSeq(*no),
            last_seq: klukai_types::base::CrsqlSeq(10_000_000),
            ts: Default::default(),
        },
    };
    tx.send((m.clone(), ChangeSource::Sync)).await.map_err(|e| Fail::infra(format!("tx_changes closed: {e}")))?;
    let deadline = Instant::now() + Duration::from_secs(60);
    while !contained(w, r, &m).await {
        if Instant::now() > deadline {
            return Err(Fail::new("ingest-loop-makes-progress", format!("a changeset sent to an otherwise idle node was not processed within 60s (marker #{no})")));
        }
        tokio::time::sleep(Duration::from_millis(2)).await;
    }
    let c = w.nodes[r].agent.pool().write_low().await.map_err(|e| Fail::infra(e.to_string()))?;
    drop(c);
    Ok(())
}

async fn run_case(case: &Case, info: &mut CaseInfo, root: std::path::PathBuf) -> Result<(), Fail> {
    let n_orig = case.origins as usize;
    let r = n_orig; // receiver index
    let (ql, al, cl) = (case.queue_len as usize, case.apply_len as usize, case.chan_len as usize);
    let mut w = World::new_with(n_orig + 1, &root, move |i, mut c| {
        if i == r {
            c.perf.processing_queue_len = ql;
            c.perf.apply_queue_len = al;
            c.perf.changes_channel_len = cl;
            c.perf.apply_queue_timeout = 10;
        }
        c
    })
    .await?;

    // the origins produce versions; then cut extra (partial) chunks of them
    for (o, stmts) in &case.txs {
        w.tx(*o as usize % n_orig, stmts).await?;
    }
    for (o, spec) in &case.cuts {
        let o = *o as usize % n_orig;
        if let Some(need) = w.need_from_spec(o, o, spec) {
            let a = w.actor(o);
            w.serve(o, vec![(a, vec![need])]).await?;
        }
    }
    if w.pool.is_empty() {
        // every transaction was a no-op: nothing to offer
        info.skipped_ops += 1;
        return Ok(());
    }

    // the real ingest loop of the receiver
    let rx = w.nodes[r].rx_changes.take().ok_or_else(|| Fail::infra("rx_changes already taken"))?;
    let (tripwire, _tw_worker, _tw_tx) = Tripwire::new_simple();
    let loop_handle = tokio::spawn(handle_changes(w.nodes[r].agent.clone(), w.nodes[r].bookie.clone(), rx, tripwire));
    let tx_changes = w.nodes[r].agent.tx_changes().clone();

    // arrival sequence under (partial) overload
    let candidates: Vec<usize> = (0..w.pool.len()).filter(|i| !case.sync_only || w.pool[*i].via_sync).collect();
    if candidates.is_empty() {
        info.skipped_ops += 1;
        return Ok(());
    }
    let ids: Vec<usize> = case.arrivals.iter().map(|p| candidates[crate::common::idx(*p, candidates.len())]).collect();
    let hold_from = case.hold_from as usize % ids.len();
    let hold_to = if case.sync_only { ids.len() } else { (hold_from + 1 + case.hold_len as usize % ids.len()).min(ids.len()) };
    let mut held = None;
    let mut offered: Vec<usize> = vec![];
    let mut offered_kinds: std::collections::BTreeMap<(usize, u64), (bool, bool)> = Default::default();
    let mut offered_last_seqs: std::collections::BTreeMap<(usize, u64), std::collections::BTreeSet<u64>> = Default::default();
    let mut offered_seq_presence: std::collections::BTreeMap<(usize, u64), std::collections::BTreeMap<u64, bool>> = Default::default();
    let mut views_differ = false;
    let mut actors_during_hold = std::collections::BTreeSet::new();
    for (i, id) in ids.iter().enumerate() {
        if i == hold_from {
            held = Some(w.nodes[r].agent.pool().write_priority().await.map_err(|e| Fail::infra(e.to_string()))?);
        }
        if i == hold_to {
            held = None;
        }
        let m = &w.pool[*id];
        if held.is_some() {
            actors_during_hold.insert(m.origin);
        }
        let (origin, supplier, change) = (m.origin, m.supplier, m.change.clone());
        if !offered.contains(id) {
            offered.push(*id);
            w.note_delivery(r, origin, &change.changeset, supplier);
            // the same version offered both as Empty (the origin's later view) and with changes (its earlier view):
            // the ingest jobs run concurrently, whichever commits first decides whether the superseded rows of that
            // version are ever written - both outcomes are correct, the visible-state comparison makes no demand
            match &change.changeset {
                Changeset::Empty { versions, .. } => {
                    for v in versions.start().0..=versions.end().0 {
                        offered_kinds.entry((origin, v)).or_insert((false, false)).0 = true;
                    }
                }
                Changeset::Full { version, changes, last_seq, .. } => {
                    if !changes.is_empty() {
                        offered_kinds.entry((origin, version.0)).or_insert((false, false)).1 = true;
                    }
                    // likewise two views of one version that end at different sequences (the later view lost rows)
                    offered_last_seqs.entry((origin, version.0)).or_default().insert(last_seq.0);
                    // ... or that disagree about a sequence both cover (live in the earlier view, overwritten in the
                    // later one): the node keeps the rows of whichever copy its concurrent jobs commit first
                    if let Changeset::Full { seqs, .. } = &change.changeset {
                        let present: std::collections::BTreeSet<u64> = changes.iter().map(|c| c.seq.0).collect();
                        let known = offered_seq_presence.entry((origin, version.0)).or_default();
                        for s in seqs.start().0..=seqs.end().0.min(seqs.start().0 + 100_000) {
                            let p = present.contains(&s);
                            if *known.entry(s).or_insert(p) != p {
                                views_differ = true;
                            }
                        }
                    }
                }
                _ => {}
            }
        }
        // the ingest channel is bounded: never block forever on it while we hold the connection
        match tokio::time::timeout(Duration::from_millis(200), tx_changes.send((change, ChangeSource::Sync))).await {
            Ok(Ok(())) => {}
            Ok(Err(e)) => return Err(Fail::infra(format!("tx_changes closed: {e}"))),
            Err(_) => {
                // channel full while the node is blocked: this offer is lost, as a timed-out peer's would be
                info.class("offer-lost-on-full-channel");
            }
        }
        tokio::task::yield_now().await;
    }
    drop(held);
    if actors_during_hold.len() >= 2 {
        info.class("overload-with-traffic-of>=2-actors");
    }
    let dropped_before = ids.len() > case.queue_len as usize + 5;

    // After the overload.  Idleness of the ingest loop is observed, not timed: a marker changeset (an
    // Empty of a dedicated actor) is sent through the same channel; the channel and the queue are FIFO,
    // so once the marker is contained everything offered before it was taken up (processed, shed or
    // suppressed), and a low-priority write request is only granted after every earlier normal-priority
    // job of the loop finished.  Then whatever is not contained is offered again - paced (one offer,
    // then idle), so that the re-offers themselves cannot overflow the queue - for at most 3 rounds.
    let marker_actor = klukai_types::actor::ActorId(uuid::Uuid::from_u128(0x3A3A_3A3A));
    w.ignore_actor = Some(marker_actor);
    let mut marker_no = 0u64;
    let mut rounds = 0;
    let mut reoffers = 0u64;
    loop {
        settle(&w, r, &tx_changes, marker_actor, &mut marker_no).await?;
        let mut eff = Effects::default();
        w.apply(r, true, 0, &mut eff).await?;
        let mut missing = vec![];
        for id in &offered {
            if !contained(&w, r, &w.pool[*id].change).await {
                missing.push(*id);
            }
        }
        if missing.is_empty() {
            break;
        }
        ensure!(
            rounds < 3,
            "applied-after-finitely-many-offers",
            "after the overload ended and 3 paced re-offer rounds {} of {} offered changesets are still not contained, e.g. {} of node {} (queue_len {}, apply_len {}, {} origins)",
            missing.len(),
            offered.len(),
            crate::sim::cs_brief(&w.pool[missing[0]].change),
            w.pool[missing[0]].origin,
            case.queue_len,
            case.apply_len,
            case.origins
        );
        rounds += 1;
        info.class("needed-a-re-offer-round");
        // Empties first (any order of re-offers is a fair one; the markers of this loop add keys to the node's
        // duplicate-suppression cache, which is flushed wholesale once it outgrows the queue length)
        missing.sort_by_key(|id| !matches!(w.pool[*id].change.changeset, Changeset::Empty { .. }));
        if missing.iter().any(|id| matches!(w.pool[*id].change.changeset, Changeset::Empty { .. })) {
            info.class("shed-empty-offered-again");
        }
        for id in &missing {
            let change = w.pool[*id].change.clone();
            tx_changes.send((change, ChangeSource::Sync)).await.map_err(|e| Fail::infra(format!("tx_changes closed: {e}")))?;
            reoffers += 1;
            settle(&w, r, &tx_changes, marker_actor, &mut marker_no).await?;
        }
    }
    let _ = reoffers;
    // let the last batch settle: apply what became complete (apply triggers are checked by C03; here
    // the real processing order is not the offer order, so the model cannot predict them)
    tokio::time::sleep(Duration::from_millis(30)).await;
    let mut eff = Effects::default();
    w.apply(r, true, 0, &mut eff).await?;
    w.clear(r).await?;
    loop_handle.abort();

    // the node holds exactly what was offered
    if std::env::var_os("KVERIF_TRACE").is_some() {
        eprintln!("offered (first-offer order):");
        for id in &offered {
            eprintln!("   #{id} about n{}: {}", w.pool[*id].origin, crate::sim::cs_brief(&w.pool[*id].change));
        }
        eprintln!("arrival ids {ids:?} hold {hold_from}..{hold_to}");
        eprintln!("model: {:?}", w.models[r]);
        eprintln!("state: {:?}", w.nodes[r].sync_state().await);
    }
    w.check_advertised(r).await?;
    if views_differ || offered_kinds.values().any(|(empty, full)| *empty && *full) || offered_last_seqs.values().any(|s| s.len() > 1) {
        info.class("version-offered-as-empty-and-with-changes(visible state not compared)");
    } else {
        w.check_visibility(r, "after overload and re-offers").await?;
    }
    // every Empty / complete version offered is contained as a whole
    for id in &offered {
        let c = &w.pool[*id].change;
        if let Changeset::Empty { versions, .. } = &c.changeset {
            let m = &w.models[r][&w.pool[*id].origin];
            for v in versions.start().0..=versions.end().0 {
                ensure!(m.held.contains(&v), "infra", "model lost an Empty version {v}");
            }
        }
    }
    let _ = CrsqlDbVersion(0);
    let _ = infra;
    w.classify(info);
    info.nontrivial = rounds > 0 || (dropped_before && actors_during_hold.len() >= 2);
    info.total_ops += ids.len() as u64;
    Ok(())
}

pub fn check(case: &Case, info: &mut CaseInfo) -> Result<(), Fail> {
    with_world("c10-", |root| run_case(case, info, root))
}

pub fn run(ctx: &Ctx, rep: &mut Report) {
    let (n, arrivals) = match ctx.tier {
        Tier::Quick => (200, 40),
        Tier::Thorough => (6_000, 60),
    };
    run_prop(ctx, rep, "overload", case_strategy(arrivals), n, 100, check);
    run_prop(ctx, rep, "few-keys", few_keys_strategy(arrivals + 10), n, 100, check);
    run_prop(ctx, rep, "shed-empties", shed_empties_strategy(220), n / 2, 100, check);
}

pub fn replay(_sub: &str, case: &serde_json::Value) -> Result<CaseInfo, Fail> {
    replay_case::<Case, _>(case, check)
}
