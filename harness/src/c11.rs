//! C11 – a subscription's rows and events always equal its query run on the database.
//! Engine E3: a full agent; the subscription is created and followed over HTTP (NDJSON stream), local
//! changes go through `/v1/transactions`, remote changes are produced by real origin nodes and arrive as
//! broadcast frames over QUIC.  Oracle: the user's SELECT re-evaluated on the node database vs (a) the
//! client-side replay of the event stream, (b) the `query` table of the subscription database, (c) the
//! snapshot served to a second subscriber.

use std::time::Duration;

use klukai_agent::transport::Transport;
use klukai_types::{actor::ClusterId, api::Statement, broadcast::ChangeV1};
use proptest::prelude::*;
use serde::{Deserialize, Serialize};
use serde_json::json;

use crate::{
    c16::uni_frame,
    common::{CaseInfo, Ctx, Fail, Report, Tier, replay_case, run_prop},
    ensure,
    live::{LiveAgent, NdjsonStream, http, open_stream},
    sim::{self, SimNode, node_config},
    subs::{SubModel, materialised, query_result},
};

pub const SUB_SCHEMA: &str = "
CREATE TABLE svc (id INTEGER NOT NULL PRIMARY KEY, name TEXT NOT NULL DEFAULT '', env TEXT, weight INTEGER NOT NULL DEFAULT 0);
CREATE TABLE inst (svc_id INTEGER NOT NULL, node TEXT NOT NULL, port INTEGER, up INTEGER NOT NULL DEFAULT 1, PRIMARY KEY (svc_id, node));
CREATE TABLE meta (k TEXT NOT NULL PRIMARY KEY, svc_id INTEGER, note TEXT);
";

pub fn query_sql(q: u8, p: u8) -> String {
    match q % 12 {
        0 => format!("SELECT id, name, weight FROM svc WHERE weight > {}", p % 4),
        1 => "SELECT id, name || '-' || coalesce(env, 'none') AS label, weight * 2 AS w2 FROM svc".to_string(),
        2 => "SELECT s.id, s.name, i.node, i.port FROM svc s JOIN inst i ON i.svc_id = s.id WHERE i.up = 1".to_string(),
        3 => "SELECT s.id, s.name, i.node, i.port FROM svc s LEFT JOIN inst i ON i.svc_id = s.id".to_string(),
        4 => "SELECT m.k, m.note, s.name FROM meta m LEFT JOIN svc s ON s.id = m.svc_id".to_string(),
        5 => format!("SELECT s.name, i.node, m.k FROM svc s JOIN inst i ON i.svc_id = s.id LEFT JOIN meta m ON m.svc_id = s.id WHERE s.weight >= {}", p % 3),
        6 => format!("SELECT svc_id, node, port FROM inst WHERE port IS NULL OR port > {}", 1000 + (p % 3) as i64),
        7 => "SELECT svc.id, inst.node FROM svc INNER JOIN inst ON inst.svc_id = svc.id WHERE svc.env IN ('prod', 'dev') AND inst.node LIKE 'n%'".to_string(),
        8 => "SELECT k, note FROM meta WHERE svc_id IS NULL".to_string(),
        9 => format!("SELECT i.svc_id, i.node, s.name FROM inst i LEFT JOIN svc s ON s.id = i.svc_id AND s.weight > {}", p % 3),
        10 => "SELECT id, env, weight FROM svc".to_string(),
        _ => format!("SELECT s.id, s.env, m.k FROM svc s LEFT JOIN meta m ON m.svc_id = s.id WHERE s.weight < {}", 1 + p % 4),
    }
}

#[derive(Debug, Clone, Serialize, Deserialize)]
pub enum SOp {
    UpsertSvc { id: u8, name: u8, env: u8, weight: u8 },
    SetSvc { id: u8, field: u8, val: u8 },
    DelSvc { id: u8 },
    UpsertInst { svc: u8, node: u8, port: u8, up: bool },
    SetInst { svc: u8, node: u8, field: u8, val: u8 },
    MoveInst { svc: u8, node: u8, to: u8 },
    DelInst { svc: u8, node: u8 },
    UpsertMeta { k: u8, svc: u8, note: u8 },
    SetMeta { k: u8, svc: u8 },
    DelMeta { k: u8 },
}

fn env_sql(e: u8) -> &'static str {
    match e % 4 {
        0 => "NULL",
        1 => "'prod'",
        2 => "'dev'",
        _ => "'test'",
    }
}

fn port_sql(p: u8) -> String {
    if p % 5 == 0 { "NULL".into() } else { format!("{}", 999 + (p % 5) as i64) }
}

fn svc_ref(s: u8) -> String {
    if s % 6 == 0 { "NULL".into() } else { format!("{}", 1 + s % 5) }
}

pub fn sop_sql(op: &SOp) -> String {
    match op {
        SOp::UpsertSvc { id, name, env, weight } => format!(
            "INSERT INTO svc (id, name, env, weight) VALUES ({}, 'svc{}', {}, {}) ON CONFLICT (id) DO UPDATE SET name = excluded.name, env = excluded.env, weight = excluded.weight",
            1 + id % 4,
            name % 3,
            env_sql(*env),
            weight % 5
        ),
        SOp::SetSvc { id, field, val } => match field % 3 {
            0 => format!("UPDATE svc SET weight = {} WHERE id = {}", val % 5, 1 + id % 4),
            1 => format!("UPDATE svc SET env = {} WHERE id = {}", env_sql(*val), 1 + id % 4),
            _ => format!("UPDATE svc SET name = 'svc{}' WHERE id = {}", val % 3, 1 + id % 4),
        },
        SOp::DelSvc { id } => format!("DELETE FROM svc WHERE id = {}", 1 + id % 4),
        SOp::UpsertInst { svc, node, port, up } => format!(
            "INSERT INTO inst (svc_id, node, port, up) VALUES ({}, 'n{}', {}, {}) ON CONFLICT (svc_id, node) DO UPDATE SET port = excluded.port, up = excluded.up",
            1 + svc % 5,
            1 + node % 3,
            port_sql(*port),
            *up as u8
        ),
        SOp::SetInst { svc, node, field, val } => match field % 2 {
            0 => format!("UPDATE inst SET up = {} WHERE svc_id = {} AND node = 'n{}'", val % 2, 1 + svc % 5, 1 + node % 3),
            _ => format!("UPDATE inst SET port = {} WHERE svc_id = {} AND node = 'n{}'", port_sql(*val), 1 + svc % 5, 1 + node % 3),
        },
        SOp::MoveInst { svc, node, to } => format!("UPDATE OR REPLACE inst SET svc_id = {} WHERE svc_id = {} AND node = 'n{}'", 1 + to % 5, 1 + svc % 5, 1 + node % 3),
        SOp::DelInst { svc, node } => format!("DELETE FROM inst WHERE svc_id = {} AND node = 'n{}'", 1 + svc % 5, 1 + node % 3),
        SOp::UpsertMeta { k, svc, note } => format!(
            "INSERT INTO meta (k, svc_id, note) VALUES ('k{}', {}, {}) ON CONFLICT (k) DO UPDATE SET svc_id = excluded.svc_id, note = excluded.note",
            1 + k % 3,
            svc_ref(*svc),
            if note % 4 == 0 { "NULL".to_string() } else { format!("'note{}'", note % 4) }
        ),
        SOp::SetMeta { k, svc } => format!("UPDATE meta SET svc_id = {} WHERE k = 'k{}'", svc_ref(*svc), 1 + k % 3),
        SOp::DelMeta { k } => format!("DELETE FROM meta WHERE k = 'k{}'", 1 + k % 3),
    }
}

pub fn sop_strategy() -> impl Strategy<Value = SOp> {
    prop_oneof![
        4 => (any::<u8>(), any::<u8>(), any::<u8>(), any::<u8>()).prop_map(|(id, name, env, weight)| SOp::UpsertSvc { id, name, env, weight }),
        5 => (any::<u8>(), any::<u8>(), any::<u8>()).prop_map(|(id, field, val)| SOp::SetSvc { id, field, val }),
        2 => any::<u8>().prop_map(|id| SOp::DelSvc { id }),
        4 => (any::<u8>(), any::<u8>(), any::<u8>(), any::<bool>()).prop_map(|(svc, node, port, up)| SOp::UpsertInst { svc, node, port, up }),
        3 => (any::<u8>(), any::<u8>(), any::<u8>(), any::<u8>()).prop_map(|(svc, node, field, val)| SOp::SetInst { svc, node, field, val }),
        2 => (any::<u8>(), any::<u8>(), any::<u8>()).prop_map(|(svc, node, to)| SOp::MoveInst { svc, node, to }),
        2 => (any::<u8>(), any::<u8>()).prop_map(|(svc, node)| SOp::DelInst { svc, node }),
        3 => (any::<u8>(), any::<u8>(), any::<u8>()).prop_map(|(k, svc, note)| SOp::UpsertMeta { k, svc, note }),
        2 => (any::<u8>(), any::<u8>()).prop_map(|(k, svc)| SOp::SetMeta { k, svc }),
        1 => any::<u8>().prop_map(|k| SOp::DelMeta { k }),
    ]
}

#[derive(Debug, Clone, Serialize, Deserialize)]
pub struct Tx {
    /// 0 = local (HTTP), 1.. = remote origin
    pub origin: u8,
    pub ops: Vec<SOp>,
    /// remote only: keep the broadcast back until the end of the phase (delivered in reverse order)
    pub hold: bool,
}

pub fn tx_strategy() -> impl Strategy<Value = Tx> {
    (prop_oneof![3 => Just(0u8), 1 => Just(1u8), 1 => Just(2u8)], proptest::collection::vec(sop_strategy(), 1..4), any::<bool>()).prop_map(|(origin, ops, hold)| Tx { origin, ops, hold })
}

#[derive(Debug, Clone, Serialize, Deserialize)]
pub struct Case {
    pub q: u8,
    pub p: u8,
    pub pre: Vec<Tx>,
    pub phases: Vec<Vec<Tx>>,
}

pub fn case_strategy(max_phases: usize) -> impl Strategy<Value = Case> {
    (0u8..12, any::<u8>(), proptest::collection::vec(tx_strategy(), 2..10), proptest::collection::vec(proptest::collection::vec(tx_strategy(), 2..7), 1..max_phases)).prop_map(|(q, p, pre, phases)| Case { q, p, pre, phases })
}

pub struct Cluster {
    pub b: LiveAgent,
    pub origins: Vec<SimNode>,
    pub transport: Transport,
    pub held: Vec<ChangeV1>,
    pub remote_versions: usize,
    /// every remote changeset produced so far (a restarted node may have forgotten versions whose changes
    /// all lost their merge: they are offered again, as sync would)
    pub log: Vec<ChangeV1>,
}

impl Cluster {
    pub async fn start(root: &std::path::Path, adjust: impl FnOnce(&mut klukai_types::config::Config)) -> Result<Cluster, Fail> {
        let dir = root.join("b");
        let b = LiveAgent::start(&dir, adjust).await.map_err(|e| Fail::infra(e.0))?;
        let ct: Vec<(String, String)> = vec![("content-type".into(), "application/json".into())];
        let r = http(b.api_addr, "POST", "/v1/migrations", &ct, Some(serde_json::to_vec(&json!([SUB_SCHEMA])).unwrap()), Duration::from_secs(5)).await.map_err(|e| Fail::infra(e.0))?;
        ensure!(r.status == 200, "infra", "schema: {} {}", r.status, String::from_utf8_lossy(&r.body));
        let mut origins = vec![];
        for i in 0..2usize {
            let d = root.join(format!("o{i}"));
            origins.push(SimNode::with_config_schema(10 + i, d.clone(), node_config(&d), Some(SUB_SCHEMA)).await.map_err(|e| Fail::infra(e.0))?);
        }
        let (rtt_tx, _rtt_rx) = tokio::sync::mpsc::channel(1024);
        let gconf = node_config(&root.join("h")).gossip;
        let transport = Transport::new(&gconf, rtt_tx).await.map_err(|e| Fail::infra(format!("transport: {e}")))?;
        Ok(Cluster { b, origins, transport, held: vec![], remote_versions: 0, log: vec![] })
    }

    pub async fn deliver(&self, msgs: &[ChangeV1]) -> Result<(), Fail> {
        let gossip = self.b.agent.gossip_addr();
        for m in msgs {
            self.transport.send_uni(gossip, uni_frame(m, Some(ClusterId(0)))?).await.map_err(|e| Fail::infra(format!("send_uni: {e}")))?;
        }
        Ok(())
    }

    pub async fn tx(&mut self, tx: &Tx) -> Result<bool, Fail> {
        let stmts: Vec<String> = tx.ops.iter().map(sop_sql).collect();
        if tx.origin == 0 {
            let body: Vec<serde_json::Value> = stmts.iter().map(|s| json!([s, []])).collect();
            let ct: Vec<(String, String)> = vec![("content-type".into(), "application/json".into())];
            let r = http(self.b.api_addr, "POST", "/v1/transactions", &ct, Some(serde_json::to_vec(&body).unwrap()), Duration::from_secs(10)).await.map_err(|e| Fail::infra(e.0))?;
            ensure!(r.status == 200, "infra", "local transaction {stmts:?}: {} {}", r.status, String::from_utf8_lossy(&r.body));
            Ok(true)
        } else {
            let oi = (tx.origin as usize - 1) % self.origins.len();
            let (st, ver, res) = self.origins[oi].transact(stmts.iter().map(|s| Statement::Simple(s.clone())).collect()).await;
            ensure!(st == 200, "infra", "origin transaction {stmts:?}: {st} {res:?}");
            let Some(v) = ver else { return Ok(false) };
            let msgs = self.origins[oi].collect_broadcast(v, None).await.map_err(|e| Fail::infra(e.0))?;
            self.remote_versions += 1;
            self.log.extend(msgs.iter().cloned());
            if tx.hold {
                self.held.extend(msgs);
            } else {
                self.deliver(&msgs).await?;
            }
            Ok(true)
        }
    }

    pub async fn release_held(&mut self) -> Result<(), Fail> {
        let mut held = std::mem::take(&mut self.held);
        held.reverse();
        self.deliver(&held).await
    }

    /// have all remote versions produced so far been applied by the node?
    pub async fn remote_applied(&self) -> Result<bool, Fail> {
        let state = klukai_types::sync::generate_sync(&self.b.bookie, self.b.agent.actor_id()).await;
        for o in &self.origins {
            let want = o.agent.booked().read::<&str, _>("c11", None).await.last().map(|v| v.0).unwrap_or(0);
            if want == 0 {
                continue;
            }
            let have = state.heads.get(&o.actor()).map(|v| v.0).unwrap_or(0);
            if have < want || state.need.get(&o.actor()).map(|n| !n.is_empty()).unwrap_or(false) || state.partial_need.get(&o.actor()).map(|n| !n.is_empty()).unwrap_or(false) {
                return Ok(false);
            }
        }
        Ok(true)
    }

    pub fn node_result(&self, sql: &str) -> Result<Vec<String>, Fail> {
        let conn = self.b.agent.pool().client_dedicated_readonly().map_err(|e| Fail::infra(e.to_string()))?;
        query_result(&conn, sql).map_err(|e| Fail::infra(format!("{sql}: {e}")))
    }
}

pub async fn subscribe(b: &LiveAgent, sql: &str) -> Result<NdjsonStream, Fail> {
    let ct: Vec<(String, String)> = vec![("content-type".into(), "application/json".into())];
    open_stream(b.api_addr, "POST", "/v1/subscriptions", &ct, Some(serde_json::to_vec(&json!(sql)).unwrap())).await.map_err(|e| Fail::infra(e.0))
}

pub fn sub_db_path(dir: &std::path::Path, id: &str) -> std::path::PathBuf {
    dir.join("subscriptions").join(id.replace('-', "")).join("sub.sqlite")
}

/// known finding: rows of an outer join whose nullable side is absent ("left-only" rows) are neither added
/// nor removed when only the nullable side changes (the per-table re-evaluation of the nullable table is
/// an INNER join restricted to the changed keys)
pub const KF_LEFT_JOIN: &str = "C11-left-join-left-only-rows-not-maintained";

/// output columns that come from the nullable side of a LEFT JOIN and can only be NULL for a left-only row
pub fn nullable_side(q: u8) -> &'static [usize] {
    match q % 12 {
        3 => &[2],
        4 => &[2],
        5 => &[2],
        9 => &[2],
        11 => &[2],
        _ => &[],
    }
}

/// the signature of the known finding: the two results differ only in left-only rows
fn left_only_rows_differ(want: &[String], got: &[String], nullable: &[usize]) -> bool {
    if nullable.is_empty() {
        return false;
    }
    let mut a: Vec<&String> = want.iter().collect();
    let mut b: Vec<&String> = got.iter().collect();
    // multiset symmetric difference
    let mut i = 0;
    while i < a.len() {
        if let Some(j) = b.iter().position(|x| *x == a[i]) {
            a.remove(i);
            b.remove(j);
        } else {
            i += 1;
        }
    }
    a.into_iter().chain(b).all(|row| match serde_json::from_str::<serde_json::Value>(row) {
        Ok(serde_json::Value::Array(cells)) => nullable.iter().all(|i| cells.get(*i).map(|c| c.is_null()).unwrap_or(false)),
        _ => false,
    })
}

/// wait until stream replay, materialised table and re-evaluated query agree (ceiling, positive polling)
#[allow(clippy::too_many_arguments)]
pub async fn settle(cl: &Cluster, stream: &mut NdjsonStream, model: &mut SubModel, sql: &str, sub_db: &std::path::Path, ncols: usize, nullable: &[usize], what: &str) -> Result<(), Fail> {
    let ceiling = Duration::from_secs(8);
    let t0 = tokio::time::Instant::now();
    loop {
        for ev in stream.drain() {
            model.apply(&ev).map_err(|mut f| {
                f.msg = format!("{what}: {}; stream so far: {:?}", f.msg, model.log);
                f
            })?;
        }
        if let Some(e) = &model.error {
            return Err(Fail::new("subscription-ended-with-error", format!("{what}: {e}")));
        }
        let applied = cl.remote_applied().await?;
        let want = cl.node_result(sql)?;
        let replay = model.result();
        let mat = materialised(sub_db, ncols).map_err(|e| Fail::infra(format!("sub db: {e}")))?;
        if std::env::var_os("KVERIF_TRACE").is_some() {
            eprintln!("{what}: t={:?} applied={applied} eoq={} want={want:?} replay={replay:?} mat={mat:?} events={:?}", t0.elapsed(), model.eoq, model.log);
        }
        if applied && model.eoq && replay == want && mat == want {
            // stay a little longer: nothing more may arrive for an unchanged result
            return Ok(());
        }
        if t0.elapsed() > ceiling {
            if !applied {
                let state = klukai_types::sync::generate_sync(&cl.b.bookie, cl.b.agent.actor_id()).await;
                let mut origin_heads = vec![];
                for o in &cl.origins {
                    origin_heads.push((o.actor(), o.agent.booked().read::<&str, _>("c11", None).await.last()));
                }
                return Err(Fail::infra(format!("{what}: remote changes were not applied within {ceiling:?}: origins {origin_heads:?}, node state {state:?}")));
            }
            for (got, clause, name) in [(&mat, "materialised-rows-equal-query", "subscription's query table"), (&replay, "event-replay-equals-query", "replay of the event stream")] {
                if *got != want {
                    let mut f = Fail::new(clause, format!("{what}: {sql}\n query on the database: {want:?}\n {name}: {got:?}\n events: {:?}", model.log));
                    if left_only_rows_differ(&want, got, nullable) {
                        f = f.finding(KF_LEFT_JOIN);
                    }
                    return Err(f);
                }
            }
            return Err(Fail::infra(format!("{what}: end-of-query not received within {ceiling:?}")));
        }
        tokio::time::sleep(Duration::from_millis(60)).await;
    }
}

async fn run_case(case: &Case, info: &mut CaseInfo, root: std::path::PathBuf) -> Result<(), Fail> {
    let mut cl = Cluster::start(&root, |_| {}).await?;
    let sql = query_sql(case.q, case.p);
    for tx in &case.pre {
        info.total_ops += 1;
        cl.tx(tx).await?;
    }
    cl.release_held().await?;
    let mut stream = subscribe(&cl.b, &sql).await?;
    if stream.status != 200 {
        let status = stream.status;
        let first = stream.next(Duration::from_millis(200)).await;
        return Err(Fail::infra(format!("subscription to {sql:?} refused: {status} {first:?}")));
    }
    let id = stream.header("corro-query-id").unwrap_or("").to_string();
    let sub_db = sub_db_path(&cl.b.dir, &id);
    let mut model = SubModel::default();
    // columns event tells the number of user columns
    let first = stream.next(Duration::from_secs(10)).await.ok_or_else(|| Fail::infra("no first event within 10 s"))?;
    model.apply(&first)?;
    let ncols = model.columns.as_ref().map(|c| c.len()).unwrap_or(0);
    ensure!(ncols > 0, "infra", "first event is not a columns event: {first}");
    let nullable = nullable_side(case.q);
    settle(&cl, &mut stream, &mut model, &sql, &sub_db, ncols, nullable, "after subscribing").await?;
    let initial_rows = model.rows.len();

    let mut changed_phases = 0;
    for (pi, phase) in case.phases.iter().enumerate() {
        let before = cl.node_result(&sql)?;
        let events_before = model.changes_seen;
        for tx in phase {
            info.total_ops += 1;
            cl.tx(tx).await?;
        }
        cl.release_held().await?;
        settle(&cl, &mut stream, &mut model, &sql, &sub_db, ncols, nullable, &format!("after phase {pi} {:?}", phase.iter().map(|t| (t.origin, t.ops.iter().map(sop_sql).collect::<Vec<_>>())).collect::<Vec<_>>())).await?;
        let after = cl.node_result(&sql)?;
        if before != after {
            changed_phases += 1;
        } else if phase.iter().all(|t| t.origin == 0) {
            // purely local phase that left the result as it was: give the matcher its batching window, then
            // nothing may have been emitted unless the result changed in between (checked per event)
            let _ = events_before;
        }
    }
    // a second subscriber gets the same rows from the materialised state
    let ct: Vec<(String, String)> = vec![];
    let mut second = open_stream(cl.b.api_addr, "GET", &format!("/v1/subscriptions/{id}"), &ct, None).await.map_err(|e| Fail::infra(e.0))?;
    ensure!(second.status == 200, "infra", "second subscriber refused: {}", second.status);
    let mut m2 = SubModel::default();
    let t0 = tokio::time::Instant::now();
    while !m2.eoq && t0.elapsed() < Duration::from_secs(8) {
        if let Some(ev) = second.next(Duration::from_millis(200)).await {
            m2.apply(&ev)?;
        }
    }
    ensure!(m2.eoq, "infra", "second subscriber got no end-of-query within 8 s");
    let want = cl.node_result(&sql)?;
    if m2.result() != want {
        let mut f = Fail::new("snapshot-for-new-subscriber-equals-query", format!("{sql}\n query on the database: {want:?}\n snapshot served: {:?}", m2.result()));
        if left_only_rows_differ(&want, &m2.result(), nullable) {
            f = f.finding(KF_LEFT_JOIN);
        }
        return Err(f);
    }

    const QCLASS: [&str; 12] = ["query-0", "query-1", "query-2", "query-3", "query-4", "query-5", "query-6", "query-7", "query-8", "query-9", "query-10", "query-11"];
    info.class(QCLASS[case.q as usize % 12]);
    if model.inserts > 0 {
        info.class("insert-events");
    }
    if model.updates > 0 {
        info.class("update-events");
    }
    if model.deletes > 0 {
        info.class("delete-events");
    }
    if cl.remote_versions > 0 {
        info.class("remote-changes");
    }
    if initial_rows > 0 {
        info.class("non-empty-initial-rows");
    }
    info.nontrivial = changed_phases >= 1 && model.changes_seen >= 2 && (model.updates > 0 || model.deletes > 0);
    cl.b.abandon().await;
    Ok(())
}

pub fn check(case: &Case, info: &mut CaseInfo) -> Result<(), Fail> {
    let root = sim::scratch_root();
    let _ = std::fs::create_dir_all(&root);
    let dir = tempfile::Builder::new().prefix("c11-").tempdir_in(root).map_err(|e| Fail::infra(e.to_string()))?;
    let rt = sim::new_runtime(3);
    let r = rt.block_on(run_case(case, info, dir.path().to_path_buf()));
    rt.shutdown_timeout(Duration::from_millis(200));
    r
}

pub fn run(ctx: &Ctx, rep: &mut Report) {
    let (n, phases) = match ctx.tier {
        Tier::Quick => (240, 4),
        Tier::Thorough => (3_200, 7),
    };
    run_prop(ctx, rep, "queries", case_strategy(phases), n, 60, check);
}

pub fn replay(_sub: &str, case: &serde_json::Value) -> Result<CaseInfo, Fail> {
    replay_case::<Case, _>(case, check)
}
