//! C12 – attaching or resuming a subscription never skips or repeats a change silently.
//! Engine E3: a full agent with one subscription; a generated script interleaves writes (single rows
//! and bursts of up to 1500 changed rows, i.e. more events than the attach buffers hold) with attaches
//! of further subscribers (from scratch, skip_rows, resume from an earlier change id) at generated
//! delays, so that attaches race with the matcher's batches.  Oracle per stream: ids strictly +1 from
//! the snapshot's / the resume point, events consistent with the replayed rows; a stream may end (error
//! event or close) but may not go on past a gap; streams still open once everything is quiet must all
//! stand at the same change id, and those attached from scratch must replay to the query result.

use std::time::Duration;

use proptest::prelude::*;
use serde::{Deserialize, Serialize};
use serde_json::json;

use crate::{
    c11::{Cluster, sub_db_path, subscribe},
    common::{CaseInfo, Ctx, Fail, Report, Tier, replay_case, run_prop},
    ensure,
    live::{NdjsonStream, http, open_stream},
    sim,
    subs::SubModel,
};

const QUERY: &str = "SELECT id, v FROM bulk WHERE v >= 0";

#[derive(Debug, Clone, Serialize, Deserialize)]
pub enum Mode {
    Scratch,
    SkipRows,
    /// resume from `back` changes before the newest id any open stream has seen
    FromBack { back: u16 },
}

#[derive(Debug, Clone, Serialize, Deserialize)]
pub enum Step {
    Single { id: u16, v: u8 },
    /// one transaction changing rows 1..=n
    Burst { n: u16, delta: u8 },
    DeleteRange { from: u16, n: u8 },
    Attach { mode: Mode },
    /// `n` attaches `gap_ms` apart: sweeps the moment at which the matcher works on a batch
    Storm {
        mode: Mode,
        n: u8,
        gap_ms: u8,
        /// rows changed by one transaction right before the storm (0: none)
        #[serde(default)]
        burst: u16,
    },
    Pause { ms: u16 },
}

#[derive(Debug, Clone, Serialize, Deserialize)]
pub struct Case {
    pub rows: u16,
    pub steps: Vec<Step>,
}

pub fn case_strategy(max_steps: usize) -> impl Strategy<Value = Case> {
    let mode = prop_oneof![3 => Just(Mode::Scratch), 1 => Just(Mode::SkipRows), 3 => (0u16..450).prop_map(|back| Mode::FromBack { back })];
    let step = prop_oneof![
        4 => (1u16..1600, any::<u8>()).prop_map(|(id, v)| Step::Single { id, v }),
        3 => (prop_oneof![2 => 2u16..60, 2 => 60u16..1000, 1 => 1000u16..1500], 1u8..5).prop_map(|(n, delta)| Step::Burst { n, delta }),
        1 => (1u16..1500, 1u8..40).prop_map(|(from, n)| Step::DeleteRange { from, n }),
        4 => mode.clone().prop_map(|mode| Step::Attach { mode }),
        4 => (prop_oneof![1 => Just(Mode::Scratch), 2 => Just(Mode::SkipRows), 3 => (0u16..300).prop_map(|back| Mode::FromBack { back })], prop_oneof![2 => 4u8..40, 2 => 40u8..250], 1u8..10, prop_oneof![1 => Just(0u16), 3 => 200u16..1500])
            .prop_map(|(mode, n, gap_ms, burst)| Step::Storm { mode, n, gap_ms, burst }),
        3 => prop_oneof![3 => 0u16..50, 2 => 50u16..700, 1 => 550u16..650].prop_map(|ms| Step::Pause { ms }),
    ];
    (prop_oneof![1 => 20u16..200, 1 => 1100u16..1500], proptest::collection::vec(step, 5..max_steps)).prop_map(|(rows, steps)| Case { rows, steps })
}

struct Attached {
    what: String,
    scratch: bool,
    stream: NdjsonStream,
    model: SubModel,
    ended: bool,
}

impl Attached {
    fn pump(&mut self) -> Result<usize, Fail> {
        let evs = self.stream.drain();
        let n = evs.len();
        for ev in evs {
            if self.model.error.is_some() {
                return Err(Fail::new("stream-stops-after-error", format!("{}: event after an error event: {ev}", self.what)));
            }
            self.model.apply(&ev).map_err(|mut f| {
                f.msg = format!("{}: {}; last events: {:?}", self.what, f.msg, self.model.log.iter().rev().take(6).collect::<Vec<_>>());
                f
            })?;
        }
        if self.model.error.is_some() || self.stream.is_closed() {
            self.ended = true;
        }
        Ok(n)
    }
}

async fn write(cl: &Cluster, sql: String) -> Result<(), Fail> {
    let ct: Vec<(String, String)> = vec![("content-type".into(), "application/json".into())];
    let r = http(cl.b.api_addr, "POST", "/v1/transactions", &ct, Some(serde_json::to_vec(&json!([[sql, []]])).unwrap()), Duration::from_secs(20)).await.map_err(|e| Fail::infra(e.0))?;
    ensure!(r.status == 200, "infra", "write refused: {} {}", r.status, String::from_utf8_lossy(&r.body));
    Ok(())
}

async fn run_case(case: &Case, info: &mut CaseInfo, root: std::path::PathBuf) -> Result<(), Fail> {
    let cl = Cluster::start(&root, |_| {}).await?;
    let ct: Vec<(String, String)> = vec![("content-type".into(), "application/json".into())];
    let r = http(cl.b.api_addr, "POST", "/v1/migrations", &ct, Some(serde_json::to_vec(&json!(["CREATE TABLE bulk (id INTEGER NOT NULL PRIMARY KEY, v INTEGER NOT NULL DEFAULT 0)"])).unwrap()), Duration::from_secs(5)).await.map_err(|e| Fail::infra(e.0))?;
    ensure!(r.status == 200, "infra", "schema: {}", r.status);
    write(&cl, format!("INSERT INTO bulk (id, v) SELECT value, 0 FROM generate_series(1, {})", case.rows)).await.or_else(|_| Ok::<(), Fail>(()))?;
    // generate_series may be unavailable on the node's connections: fall back to a recursive CTE
    let have: i64 = cl.node_result("SELECT count(*) FROM bulk")?.first().and_then(|s| serde_json::from_str::<serde_json::Value>(s).ok()).and_then(|v| v.get(0).and_then(|x| x.as_i64())).unwrap_or(0);
    if have == 0 {
        write(&cl, format!("WITH RECURSIVE c(x) AS (SELECT 1 UNION ALL SELECT x + 1 FROM c WHERE x < {}) INSERT INTO bulk (id, v) SELECT x, 0 FROM c", case.rows)).await?;
    }

    let primary = subscribe(&cl.b, QUERY).await?;
    ensure!(primary.status == 200, "infra", "subscription refused: {}", primary.status);
    let id = primary.header("corro-query-id").unwrap_or("").to_string();
    let sub_db = sub_db_path(&cl.b.dir, &id);
    let mut streams = vec![Attached { what: "primary stream (attached before any write)".into(), scratch: true, stream: primary, model: SubModel::default(), ended: false }];
    // let the initial query finish so that later attaches go through the catch-up path
    let t0 = tokio::time::Instant::now();
    while !streams[0].model.eoq {
        streams[0].pump()?;
        ensure!(t0.elapsed() < Duration::from_secs(20), "infra", "initial query did not finish within 20 s");
        tokio::time::sleep(Duration::from_millis(20)).await;
    }

    let mut attaches_during_activity = 0;
    let mut last_write = tokio::time::Instant::now() - Duration::from_secs(5);
    let mut bursts = 0;
    for (si, step) in case.steps.iter().enumerate() {
        info.total_ops += 1;
        match step {
            Step::Single { id, v } => {
                write(&cl, format!("INSERT INTO bulk (id, v) VALUES ({id}, {v}) ON CONFLICT (id) DO UPDATE SET v = excluded.v")).await?;
                last_write = tokio::time::Instant::now();
            }
            Step::Burst { n, delta } => {
                write(&cl, format!("UPDATE bulk SET v = v + {delta} WHERE id <= {n}")).await?;
                last_write = tokio::time::Instant::now();
                bursts += 1;
            }
            Step::DeleteRange { from, n } => {
                write(&cl, format!("DELETE FROM bulk WHERE id >= {from} AND id < {}", *from as u32 + *n as u32)).await?;
                last_write = tokio::time::Instant::now();
            }
            Step::Pause { ms } => {
                tokio::time::sleep(Duration::from_millis(*ms as u64)).await;
            }
            Step::Attach { mode } | Step::Storm { mode, .. } => {
              let (count, gap) = match step {
                  Step::Storm { n, gap_ms, .. } => (*n as usize, *gap_ms as u64),
                  _ => (1, 0),
              };
              if let Step::Storm { burst, .. } = step {
                  if *burst > 0 {
                      write(&cl, format!("UPDATE bulk SET v = v + 1 WHERE id <= {burst}")).await?;
                      last_write = tokio::time::Instant::now();
                      bursts += 1;
                  }
              }
              for k in 0..count {
                if k > 0 {
                    tokio::time::sleep(Duration::from_millis(gap)).await;
                }
                for s in streams.iter_mut() {
                    s.pump()?;
                }
                let newest = streams.iter().filter_map(|s| s.model.last_change).max().unwrap_or(0);
                let (path, model, what, scratch) = match mode {
                    Mode::Scratch => (format!("/v1/subscriptions/{id}"), SubModel::default(), format!("step {si}: attached from scratch"), true),
                    Mode::SkipRows => (format!("/v1/subscriptions/{id}?skip_rows=true"), SubModel::skipping_rows(), format!("step {si}: attached with skip_rows"), false),
                    Mode::FromBack { back } => {
                        let from = newest.saturating_sub(*back as u64);
                        (format!("/v1/subscriptions/{id}?from={from}"), SubModel::resuming(from), format!("step {si}: resumed from {from} (newest seen {newest})"), false)
                    }
                };
                let stream = open_stream(cl.b.api_addr, "GET", &path, &[], None).await.map_err(|e| Fail::infra(e.0))?;
                ensure!(stream.status == 200, "infra", "{what}: status {}", stream.status);
                if last_write.elapsed() < Duration::from_millis(700) {
                    attaches_during_activity += 1;
                }
                streams.push(Attached { what, scratch, stream, model, ended: false });
              }
            }
        }
    }

    // quiescence: no events on any stream for 1.5 s (the matcher batches for 600 ms)
    let ceiling = Duration::from_secs(20);
    let t0 = tokio::time::Instant::now();
    let mut quiet_since = tokio::time::Instant::now();
    loop {
        let mut got = 0;
        for s in streams.iter_mut() {
            got += s.pump()?;
        }
        if got > 0 {
            quiet_since = tokio::time::Instant::now();
        }
        if quiet_since.elapsed() > Duration::from_millis(1500) && last_write.elapsed() > Duration::from_millis(1500) {
            break;
        }
        ensure!(t0.elapsed() < ceiling, "infra", "streams did not become quiet within {ceiling:?}");
        tokio::time::sleep(Duration::from_millis(50)).await;
    }
    // the matcher may still be working on the last batch (a slow machine): wait until the subscription itself
    // has caught up with the database and every open stream stands at the end of its change log; only what
    // is still behind at the ceiling is judged
    let read_log_end = || -> Result<u64, Fail> {
        let conn = rusqlite::Connection::open_with_flags(&sub_db, rusqlite::OpenFlags::SQLITE_OPEN_READ_ONLY).map_err(|e| Fail::infra(e.to_string()))?;
        Ok(conn.query_row("SELECT COALESCE(MAX(id), 0) FROM changes", [], |r| r.get::<_, i64>(0)).map_err(|e| Fail::infra(e.to_string()))? as u64)
    };
    let t1 = tokio::time::Instant::now();
    let (want, log_end) = loop {
        for s in streams.iter_mut() {
            s.pump()?;
        }
        let log_end = read_log_end()?;
        let want = cl.node_result(QUERY)?;
        let mat = crate::subs::materialised(&sub_db, 2).map_err(|e| Fail::infra(format!("sub db: {e}")))?;
        let behind = streams.iter().any(|s| !s.ended && !(s.model.ids_only && s.model.last_change.is_none()) && s.model.last_change.unwrap_or(0) != log_end);
        if mat == want && !behind && read_log_end()? == log_end {
            break (want, log_end);
        }
        if t1.elapsed() > Duration::from_secs(15) {
            ensure!(mat == want, "infra", "the subscription's own rows did not catch up with the database within 15 s (that is C11's subject)");
            break (want, log_end);
        }
        tokio::time::sleep(Duration::from_millis(100)).await;
    };
    let mut ended = 0;
    let mut open = 0;
    for s in &streams {
        if s.ended {
            ended += 1;
            continue;
        }
        open += 1;
        if s.model.last_change.is_some() || log_end > 0 {
            let at = s.model.last_change.unwrap_or(0);
            // a skip_rows stream that never saw a change has no position yet
            if !(s.model.ids_only && s.model.last_change.is_none()) {
                ensure!(at == log_end, "open-stream-is-complete", "{}: still open and quiet at change id {at}, the change log ends at {log_end}; last events: {:?}", s.what, s.model.log.iter().rev().take(5).collect::<Vec<_>>());
            }
        }
        if s.scratch {
            ensure!(s.model.result() == want, "snapshot-plus-changes-equals-query", "{}: replay of snapshot and changes differs from the query on the database ({} vs {} rows)", s.what, s.model.result().len(), want.len());
        }
    }
    if ended > 0 {
        info.class("stream-ended-instead-of-continuing");
    }
    if attaches_during_activity > 0 {
        info.class("attach-within-700ms-of-a-write");
    }
    if bursts > 0 && case.rows > 1024 {
        info.class("burst-larger-than-the-buffers-possible");
    }
    if streams.iter().any(|s| !s.scratch && s.model.ids_only && s.model.changes_seen > 0) {
        info.class("resumed-stream-received-changes");
    }
    let _ = open;
    info.nontrivial = attaches_during_activity >= 1 && streams.len() >= 3 && log_end >= 2;
    let mut cl = cl;
    cl.b.abandon_in_place().await;
    Ok(())
}

pub fn check(case: &Case, info: &mut CaseInfo) -> Result<(), Fail> {
    let root = sim::scratch_root();
    let _ = std::fs::create_dir_all(&root);
    let dir = tempfile::Builder::new().prefix("c12-").tempdir_in(root).map_err(|e| Fail::infra(e.to_string()))?;
    let rt = sim::new_runtime(3);
    let r = rt.block_on(run_case(case, info, dir.path().to_path_buf()));
    rt.shutdown_timeout(Duration::from_millis(200));
    r
}

pub fn run(ctx: &Ctx, rep: &mut Report) {
    let (n, steps) = match ctx.tier {
        Tier::Quick => (160, 16),
        Tier::Thorough => (400, 40),
    };
    run_prop(ctx, rep, "attach", case_strategy(steps), n, 40, check);
    let n_client = match ctx.tier {
        Tier::Quick => 4_000,
        Tier::Thorough => 60_000,
    };
    run_prop(ctx, rep, "client", crate::c12b::client_strategy(), n_client, 2000, crate::c12b::check_client);
}

pub fn replay(sub: &str, case: &serde_json::Value) -> Result<CaseInfo, Fail> {
    if sub.starts_with("client") {
        return replay_case::<crate::c12b::ClientCase, _>(case, crate::c12b::check_client);
    }
    replay_case::<Case, _>(case, check)
}
