//! C12, sub-campaign "client": the client library reports any gap it observes.
//! A tiny HTTP server (harness-owned) answers the client library's subscribe / re-attach requests with a
//! generated NDJSON script: a snapshot ending at a generated change id (or a resume point) followed by
//! change events whose ids step by +1 most of the time and by 0, +2.., or backwards at generated places.
//! Oracle: the real `SubscriptionStream` yields every event up to the first irregular id unchanged and
//! in order, and at that place yields `SubscriptionError::MissedChange { expected: last + 1, got }` -
//! never an `Ok` change whose id is not the successor of the previous one.

use std::{net::SocketAddr, time::Duration};

use axum::{Router, body::Body, http::Response, routing::get, routing::post};
use futures::StreamExt;
use klukai_client::{CorrosionApiClient, sub::SubscriptionError};
use klukai_types::api::{ChangeId, QueryEvent, Statement};
use proptest::prelude::*;
use serde::{Deserialize, Serialize};
use serde_json::json;

use crate::{
    common::{CaseInfo, Fail},
    ensure, sim,
};

#[derive(Debug, Clone, Serialize, Deserialize)]
pub struct ClientCase {
    /// None: subscribe from scratch (snapshot + eoq), Some(n): re-attach from change id n
    pub from: Option<u16>,
    pub rows: u8,
    pub eoq_change_id: u16,
    /// id steps of the change events: 1 = regular
    pub steps: Vec<i8>,
}

pub fn client_strategy() -> impl Strategy<Value = ClientCase> {
    let step = prop_oneof![12 => Just(1i8), 1 => Just(0i8), 1 => 2i8..6, 1 => -5i8..0];
    (proptest::option::of(0u16..1000), 0u8..6, 0u16..1000, proptest::collection::vec(step, 1..40)).prop_map(|(from, rows, eoq_change_id, steps)| ClientCase { from, rows, eoq_change_id, steps })
}

fn script(case: &ClientCase) -> (String, Vec<i64>) {
    let mut out = String::new();
    let mut last: i64 = match case.from {
        Some(n) => n as i64,
        None => {
            out.push_str(&json!({"columns": ["id", "v"]}).to_string());
            out.push('\n');
            for r in 0..case.rows {
                out.push_str(&json!({"row": [r as u64 + 1, [r, "x"]]}).to_string());
                out.push('\n');
            }
            out.push_str(&json!({"eoq": {"time": 0.001, "change_id": case.eoq_change_id}}).to_string());
            out.push('\n');
            case.eoq_change_id as i64
        }
    };
    let mut ids = vec![];
    for (i, s) in case.steps.iter().enumerate() {
        last = (last + *s as i64).max(0);
        ids.push(last);
        out.push_str(&json!({"change": ["update", 1, [i, "y"], last]}).to_string());
        out.push('\n');
    }
    (out, ids)
}

async fn run_client(case: &ClientCase, info: &mut CaseInfo) -> Result<(), Fail> {
    let (body, ids) = script(case);
    let id = uuid::Uuid::new_v4();
    let mk = {
        let body = body.clone();
        move || {
            let body = body.clone();
            async move { Response::builder().status(200).header("corro-query-id", id.to_string()).header("corro-query-hash", "00").body(Body::from(body)).unwrap() }
        }
    };
    let app = Router::new().route("/v1/subscriptions", post(mk.clone())).route("/v1/subscriptions/{id}", get(mk));
    let listener = tokio::net::TcpListener::bind("127.0.0.1:0").await.map_err(|e| Fail::infra(e.to_string()))?;
    let addr: SocketAddr = listener.local_addr().map_err(|e| Fail::infra(e.to_string()))?;
    let server = tokio::spawn(async move {
        let _ = axum::serve(listener, app).await;
    });
    let client = CorrosionApiClient::new(addr);
    let mut stream = match case.from {
        None => client.subscribe(&Statement::Simple("SELECT id, v FROM t".into()), false, None).await,
        Some(n) => client.subscription(id, false, Some(ChangeId(n as u64))).await,
    }
    .map_err(|e| Fail::infra(format!("client could not attach to the fake server: {e}")))?;
    let mut last: i64 = match case.from {
        Some(n) => n as i64,
        None => -1,
    };
    let mut have_base = case.from.is_some();
    let mut k = 0usize;
    let mut reported = false;
    let mut first_irregular = None;
    loop {
        let item = match tokio::time::timeout(Duration::from_secs(5), stream.next()).await {
            Err(_) => break,
            Ok(None) => break,
            Ok(Some(item)) => item,
        };
        match item {
            Ok(QueryEvent::EndOfQuery { change_id, .. }) => {
                last = change_id.map(|c| c.0 as i64).unwrap_or(-1);
                have_base = change_id.is_some();
            }
            Ok(QueryEvent::Change(_, _, _, cid)) => {
                let got = cid.0 as i64;
                ensure!(k < ids.len() && got == ids[k], "client-yields-events-unchanged", "event #{k}: the client yielded change id {got}, the server sent {:?}", ids.get(k));
                if have_base {
                    ensure!(got == last + 1, "client-reports-observed-gap", "the client yielded change {got} after {last} as a regular event (server script ids {ids:?}, attach {:?})", case.from);
                }
                last = got;
                have_base = true;
                k += 1;
            }
            Ok(_) => {}
            Err(SubscriptionError::MissedChange { expected, got }) => {
                ensure!(k < ids.len(), "client-yields-events-unchanged", "MissedChange after the end of the script");
                ensure!(got.0 as i64 == ids[k] && expected.0 as i64 == last + 1, "client-reports-observed-gap", "MissedChange {{ expected {expected}, got {got} }} at event #{k}; the server sent {} after {last}", ids[k]);
                ensure!(ids[k] != last + 1, "client-reports-observed-gap", "MissedChange reported for the regular successor {} of {last}", ids[k]);
                reported = true;
                first_irregular = Some(k);
                break;
            }
            Err(e) => {
                // connection-level errors after the scripted body ended are not the subject
                if k >= ids.len() {
                    break;
                }
                return Err(Fail::new("client-yields-events-unchanged", format!("unexpected client error at event #{k}: {e}")));
            }
        }
    }
    server.abort();
    // where the script's first irregular id is, the client must have stopped with the report
    let mut prev = match case.from {
        Some(n) => n as i64,
        None => case.eoq_change_id as i64,
    };
    let mut script_irregular = None;
    for (i, idv) in ids.iter().enumerate() {
        if *idv != prev + 1 {
            script_irregular = Some(i);
            break;
        }
        prev = *idv;
    }
    match script_irregular {
        Some(i) => {
            ensure!(reported && first_irregular == Some(i), "client-reports-observed-gap", "the script's first irregular id is at event #{i} ({} after {}), the client reported: {reported} at {first_irregular:?} after yielding {k} events", ids[i], if i == 0 { prev } else { ids[i - 1] });
            info.class("gap-reported");
            info.nontrivial = i >= 1;
        }
        None => {
            ensure!(!reported && k == ids.len(), "client-yields-events-unchanged", "regular script of {} events: the client yielded {k}, reported a gap: {reported}", ids.len());
            info.class("regular-stream");
        }
    }
    info.total_ops += ids.len() as u64;
    Ok(())
}

pub fn check_client(case: &ClientCase, info: &mut CaseInfo) -> Result<(), Fail> {
    let rt = sim::new_runtime(2);
    let r = rt.block_on(run_client(case, info));
    rt.shutdown_timeout(Duration::from_millis(100));
    r
}
