//! C13 – subscriptions survive a clean restart and are discarded after an unclean one.
//! Engine E3: a full agent with a live subscription (HTTP), generated histories, then either the
//! production shutdown sequence (tripwire, task handles, subscription wind-down, counted tasks) with
//! generated traffic still arriving, or a crash image of the whole node directory (database, WAL,
//! subscription databases) taken at a generated point of the subscription's life; the node is started
//! again on the result and the subscription is looked up by its id.

use std::time::Duration;

use proptest::prelude::*;
use serde::{Deserialize, Serialize};

use crate::{
    c11::{Cluster, Tx, query_sql, settle, sub_db_path, subscribe, tx_strategy},
    common::{CaseInfo, Ctx, Fail, Report, Tier, replay_case, run_prop},
    ensure,
    live::{LiveAgent, open_stream},
    sim,
    subs::SubModel,
};

/// query templates without LEFT JOIN (those carry a known C11 finding)
const QUERIES: [u8; 7] = [0, 1, 2, 6, 7, 8, 10];

#[derive(Debug, Clone, Serialize, Deserialize)]
pub enum Stop {
    /// production shutdown; `during` are transactions issued while it is in progress
    Graceful { during: Vec<Tx>, spacing_ms: u16 },
    /// crash image taken right after the subscription request was answered (creation / initial query)
    CrashAtCreation,
    /// crash image taken in the middle of the last phase (matcher running, candidates in flight)
    CrashMidPhase,
    /// crash image taken after everything settled (running, idle)
    CrashIdle,
}

#[derive(Debug, Clone, Serialize, Deserialize)]
pub struct Case {
    pub q: u8,
    pub p: u8,
    pub pre: Vec<Tx>,
    pub phase: Vec<Tx>,
    pub stop: Stop,
    pub after: Vec<Tx>,
    /// after a clean restart: crash image in the restored subscription's second life
    /// (1: idle right after the restart, 2: right after new transactions, 3: after they settled)
    #[serde(default)]
    pub second_crash: u8,
}

pub fn case_strategy() -> impl Strategy<Value = Case> {
    let stop = prop_oneof![
        5 => (proptest::collection::vec(tx_strategy(), 0..6), 0u16..400).prop_map(|(during, spacing_ms)| Stop::Graceful { during, spacing_ms }),
        1 => Just(Stop::CrashAtCreation),
        1 => Just(Stop::CrashMidPhase),
        1 => Just(Stop::CrashIdle),
    ];
    (0usize..QUERIES.len(), any::<u8>(), proptest::collection::vec(tx_strategy(), 2..8), proptest::collection::vec(tx_strategy(), 2..7), stop, proptest::collection::vec(tx_strategy(), 1..5), prop_oneof![3 => Just(0u8), 1 => Just(1u8), 1 => Just(2u8), 1 => Just(3u8)])
        .prop_map(|(qi, p, pre, phase, stop, after, second_crash)| Case { q: QUERIES[qi], p, pre, phase, stop, after, second_crash })
}

fn copy_dir(from: &std::path::Path, to: &std::path::Path) -> std::io::Result<()> {
    std::fs::create_dir_all(to)?;
    for e in std::fs::read_dir(from)? {
        let e = e?;
        let p = e.path();
        let name = e.file_name();
        if name.to_string_lossy().ends_with(".sock") {
            continue;
        }
        if p.is_dir() {
            copy_dir(&p, &to.join(&name))?;
        } else {
            // a file may vanish between listing and copying (WAL/shm of a closing connection)
            let _ = std::fs::copy(&p, to.join(&name));
        }
    }
    Ok(())
}

fn sub_state(sub_db: &std::path::Path) -> Option<String> {
    let conn = rusqlite::Connection::open_with_flags(sub_db, rusqlite::OpenFlags::SQLITE_OPEN_READ_ONLY).ok()?;
    conn.query_row("SELECT value FROM meta WHERE key = 'state'", [], |r| r.get(0)).ok()
}

async fn run_case(case: &Case, info: &mut CaseInfo, root: std::path::PathBuf) -> Result<(), Fail> {
    let mut cl = Cluster::start(&root, |_| {}).await?;
    let sql = query_sql(case.q, case.p);
    for tx in &case.pre {
        info.total_ops += 1;
        cl.tx(tx).await?;
    }
    cl.release_held().await?;
    let mut stream = subscribe(&cl.b, &sql).await?;
    ensure!(stream.status == 200, "infra", "subscription to {sql:?} refused: {}", stream.status);
    let id = stream.header("corro-query-id").unwrap_or("").to_string();
    let live_dir = cl.b.dir.clone();
    let sub_db = sub_db_path(&live_dir, &id);
    let image = root.join("image");
    let mut crashed = false;
    if matches!(case.stop, Stop::CrashAtCreation) {
        copy_dir(&live_dir, &image).map_err(|e| Fail::infra(format!("image: {e}")))?;
        crashed = true;
    }
    let mut model = SubModel::default();
    let first = stream.next(Duration::from_secs(10)).await.ok_or_else(|| Fail::infra("no first event within 10 s"))?;
    model.apply(&first)?;
    let ncols = model.columns.as_ref().map(|c| c.len()).unwrap_or(0);
    ensure!(ncols > 0, "infra", "first event is not a columns event: {first}");
    let mut last_before = 0u64;
    if !crashed {
        settle(&cl, &mut stream, &mut model, &sql, &sub_db, ncols, &[], "after subscribing").await?;
        for (i, tx) in case.phase.iter().enumerate() {
            info.total_ops += 1;
            cl.tx(tx).await?;
            if matches!(case.stop, Stop::CrashMidPhase) && i == case.phase.len() / 2 {
                cl.release_held().await?;
                copy_dir(&live_dir, &image).map_err(|e| Fail::infra(format!("image: {e}")))?;
                crashed = true;
                break;
            }
        }
        if !crashed {
            cl.release_held().await?;
            settle(&cl, &mut stream, &mut model, &sql, &sub_db, ncols, &[], "after the phase before the stop").await?;
            last_before = model.last_change.unwrap_or(0);
            if matches!(case.stop, Stop::CrashIdle) {
                copy_dir(&live_dir, &image).map_err(|e| Fail::infra(format!("image: {e}")))?;
                crashed = true;
            }
        }
    }

    let mut resend: Vec<bytes::Bytes> = vec![];
    let restart_dir;
    if crashed {
        // the old process is "dead": leave it running on its own directory, it cannot touch the image
        restart_dir = image.clone();
        let state = sub_state(&sub_db_path(&image, &id));
        info.class(match state.as_deref() {
            Some("created") => "crash-image-in-state-created",
            Some("running") => "crash-image-in-state-running",
            Some("completed") => "crash-image-in-state-completed",
            _ => "crash-image-without-state",
        });
        ensure!(state.as_deref() != Some("completed"), "state-is-completed-only-after-a-clean-stop", "the crash image of a live subscription carries meta.state = 'completed'");
    } else {
        let Stop::Graceful { during, spacing_ms } = &case.stop else { unreachable!() };
        // traffic that keeps arriving while the node shuts down (failures are expected: the node is going away)
        let mut acked_during = 0;
        // remote transactions are executed at their origin now, their broadcasts arrive during the shutdown
        let mut remote_frames: Vec<Option<Vec<bytes::Bytes>>> = vec![];
        for tx in during {
            if tx.origin == 0 {
                remote_frames.push(None);
                continue;
            }
            let oi = (tx.origin as usize - 1) % cl.origins.len();
            let stmts: Vec<klukai_types::api::Statement> = tx.ops.iter().map(|o| klukai_types::api::Statement::Simple(crate::c11::sop_sql(o))).collect();
            let (st, ver, res) = cl.origins[oi].transact(stmts).await;
            ensure!(st == 200, "infra", "origin transaction: {st} {res:?}");
            let mut frames = vec![];
            if let Some(v) = ver {
                for m in cl.origins[oi].collect_broadcast(v, None).await.map_err(|e| Fail::infra(e.0))? {
                    frames.push(crate::c16::uni_frame(&m, Some(klukai_types::actor::ClusterId(0)))?);
                }
                cl.remote_versions += 1;
            }
            remote_frames.push(Some(frames));
        }
        {
            let api = cl.b.api_addr;
            let gossip = cl.b.agent.gossip_addr();
            let transport = cl.transport.clone();
            let stop_fut = cl.b.stop_in_place();
            tokio::pin!(stop_fut);
            let mut i = 0;
            let mut clean = None;
            loop {
                tokio::select! {
                    r = &mut stop_fut, if clean.is_none() => { clean = Some(r); }
                    _ = tokio::time::sleep(Duration::from_millis(*spacing_ms as u64)), if i < during.len() => {
                        // cannot borrow cl mutably here (stop_fut holds it): local traffic only, raw HTTP
                        let tx = &during[i];
                        i += 1;
                        if let Some(frames) = &remote_frames[i - 1] {
                            for f in frames {
                                let _ = tokio::time::timeout(Duration::from_secs(2), transport.send_uni(gossip, f.clone())).await;
                            }
                        } else {
                            let stmts: Vec<String> = tx.ops.iter().map(crate::c11::sop_sql).collect();
                            let body: Vec<serde_json::Value> = stmts.iter().map(|s| serde_json::json!([s, []])).collect();
                            let ct: Vec<(String, String)> = vec![("content-type".into(), "application/json".into())];
                            if let Ok(r) = crate::live::http(api, "POST", "/v1/transactions", &ct, Some(serde_json::to_vec(&body).unwrap()), Duration::from_secs(3)).await {
                                if r.status == 200 {
                                    acked_during += 1;
                                }
                            }
                        }
                    }
                }
                if clean.is_some() && i >= during.len() {
                    break;
                }
            }
            ensure!(clean == Some(true), "infra", "the production shutdown sequence did not finish inside its ceilings");
        }
        if acked_during > 0 {
            info.class("writes-acknowledged-during-shutdown");
        }
        resend = remote_frames.into_iter().flatten().flatten().collect();
        let state = sub_state(&sub_db);
        ensure!(state.as_deref() == Some("completed"), "clean-stop-marks-subscription-restorable", "after the production shutdown sequence meta.state is {state:?}");
        restart_dir = live_dir.clone();
    }

    // ---- restart
    let b2 = LiveAgent::start(&restart_dir, |_| {}).await.map_err(|e| Fail::new("node-restarts", format!("restart failed: {}", e.0)))?;
    let old = std::mem::replace(&mut cl.b, b2);
    if crashed {
        // keep the "dead" process' tasks from interfering with later polling: trip it
        old.abandon().await;
    } else {
        drop(old);
    }
    let ct: Vec<(String, String)> = vec![];
    let mut s2 = open_stream(cl.b.api_addr, "GET", &format!("/v1/subscriptions/{id}"), &ct, None).await.map_err(|e| Fail::infra(e.0))?;
    let sub_db2 = sub_db_path(&restart_dir, &id);
    if crashed {
        ensure!(s2.status == 404, "unclean-subscription-is-not-served", "after a crash the subscription {id} is still served: status {}", s2.status);
        ensure!(!sub_db2.exists(), "unclean-subscription-is-removed", "after a crash the subscription database {} still exists", sub_db2.display());
        info.class("crash-restart");
        info.nontrivial = true;
        cl.b.abandon_in_place().await;
        return Ok(());
    }
    // what the dying node did not take in any more reaches it again after the restart (as sync would do)
    for f in &resend {
        cl.transport.send_uni(cl.b.agent.gossip_addr(), f.clone()).await.map_err(|e| Fail::infra(format!("send_uni: {e}")))?;
    }
    if !crashed {
        let log = cl.log.clone();
        cl.deliver(&log).await?;
    }
    ensure!(s2.status == 200, "subscription-keeps-its-id", "after a clean restart GET /v1/subscriptions/{id} answers {}", s2.status);
    let mut m2 = SubModel::default();
    let first = s2.next(Duration::from_secs(10)).await.ok_or_else(|| Fail::infra("no first event after restart within 10 s"))?;
    m2.apply(&first)?;
    settle(&cl, &mut s2, &mut m2, &sql, &sub_db2, ncols, &[], "after the clean restart").await?;
    if case.second_crash == 1 {
        return second_life_crash(&mut cl, &root, &restart_dir, &id, info).await;
    }
    let last_after = m2.last_change.unwrap_or(0);
    ensure!(last_after >= last_before, "change-log-kept", "the change log ends at {last_after} after the restart, the client had seen {last_before} before");
    // resuming from what the client had seen before: only ids, contiguous, ending where the log ends
    let mut s3 = open_stream(cl.b.api_addr, "GET", &format!("/v1/subscriptions/{id}?from={last_before}"), &ct, None).await.map_err(|e| Fail::infra(e.0))?;
    ensure!(s3.status == 200, "resume-after-restart", "resuming from {last_before} answers {}", s3.status);
    let mut m3 = SubModel::resuming(last_before);
    // new changes continue with the next id on all three streams
    for tx in &case.after {
        info.total_ops += 1;
        cl.tx(tx).await?;
    }
    cl.release_held().await?;
    if case.second_crash == 2 {
        return second_life_crash(&mut cl, &root, &restart_dir, &id, info).await;
    }
    settle(&cl, &mut s2, &mut m2, &sql, &sub_db2, ncols, &[], "after new changes following the clean restart").await?;
    if case.second_crash == 3 {
        return second_life_crash(&mut cl, &root, &restart_dir, &id, info).await;
    }
    let t0 = tokio::time::Instant::now();
    while m3.last_change != m2.last_change && t0.elapsed() < Duration::from_secs(8) {
        if let Some(ev) = s3.next(Duration::from_millis(100)).await {
            m3.apply(&ev)?;
        }
        if let Some(e) = &m3.error {
            return Err(Fail::new("resume-after-restart", format!("resumed stream ended with error {e}")));
        }
    }
    ensure!(m3.last_change == m2.last_change, "resume-after-restart", "the stream resumed from {last_before} ended at {:?}, the full stream at {:?}", m3.last_change, m2.last_change);
    info.class("clean-restart");
    if m2.last_change.unwrap_or(0) > last_after {
        info.class("new-events-after-restart");
    }
    if last_after > last_before {
        info.class("changes-recorded-during-shutdown");
    }
    info.nontrivial = last_before > 0 && m2.last_change.unwrap_or(0) > last_after;
    cl.b.abandon_in_place().await;
    Ok(())
}

/// a crash (image of the running node) in the second life of a restored subscription: it must not be
/// served after the next start either
async fn second_life_crash(cl: &mut Cluster, root: &std::path::Path, live_dir: &std::path::Path, id: &str, info: &mut CaseInfo) -> Result<(), Fail> {
    let image = root.join("image2");
    copy_dir(live_dir, &image).map_err(|e| Fail::infra(format!("image: {e}")))?;
    let state = sub_state(&sub_db_path(&image, id));
    ensure!(state.as_deref() != Some("completed"), "state-is-completed-only-after-a-clean-stop", "the crash image of a restored, live subscription carries meta.state = 'completed'");
    let b3 = LiveAgent::start(&image, |_| {}).await.map_err(|e| Fail::new("node-restarts", format!("restart failed: {}", e.0)))?;
    let old = std::mem::replace(&mut cl.b, b3);
    old.abandon().await;
    let s = open_stream(cl.b.api_addr, "GET", &format!("/v1/subscriptions/{id}"), &[], None).await.map_err(|e| Fail::infra(e.0))?;
    ensure!(s.status == 404, "unclean-subscription-is-not-served", "after a crash in its second life the subscription {id} is still served: status {}", s.status);
    let db = sub_db_path(&image, id);
    ensure!(!db.exists(), "unclean-subscription-is-removed", "after a crash in its second life the subscription database {} still exists", db.display());
    info.class("crash-in-second-life");
    info.nontrivial = true;
    cl.b.abandon_in_place().await;
    Ok(())
}

pub fn check(case: &Case, info: &mut CaseInfo) -> Result<(), Fail> {
    let root = sim::scratch_root();
    let _ = std::fs::create_dir_all(&root);
    let dir = tempfile::Builder::new().prefix("c13-").tempdir_in(root).map_err(|e| Fail::infra(e.to_string()))?;
    let rt = sim::new_runtime(3);
    let r = rt.block_on(run_case(case, info, dir.path().to_path_buf()));
    rt.shutdown_timeout(Duration::from_millis(200));
    r
}

pub fn run(ctx: &Ctx, rep: &mut Report) {
    let n = match ctx.tier {
        Tier::Quick => 128,
        Tier::Thorough => 1_600,
    };
    run_prop(ctx, rep, "restarts", case_strategy(), n, 30, check);
}

pub fn replay(_sub: &str, case: &serde_json::Value) -> Result<CaseInfo, Fail> {
    replay_case::<Case, _>(case, check)
}
