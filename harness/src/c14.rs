//! C14 – row-level update notifications reflect every changed key and its final fate.
//! Engine E3: a full agent, a listener on `POST /v1/updates/{table}` (NDJSON), generated histories of
//! local transactions (HTTP) and remote transactions of two real origin nodes whose broadcasts arrive in
//! a generated order.  Oracle: the table itself – keys whose row differs between the start and the end
//! of a phase must have been notified in that phase, and the last notification ever received for a key
//! must say 'delete' exactly when the row does not exist once everything is quiet.

use std::{collections::BTreeMap, time::Duration};

use proptest::prelude::*;
use serde::{Deserialize, Serialize};

use crate::{
    c11::{Cluster, SOp, Tx, sop_strategy},
    common::{CaseInfo, Ctx, Fail, Report, Tier, replay_case, run_prop},
    ensure,
    live::open_stream,
    sim,
    subs::query_result,
};

const TABLES: [(&str, &str); 3] = [("svc", "id"), ("inst", "svc_id, node"), ("meta", "k")];

#[derive(Debug, Clone, Serialize, Deserialize)]
pub struct Case {
    pub table: u8,
    pub pre: Vec<Tx>,
    /// phases of transactions; remote broadcasts of a phase are delivered at its end in the order given
    /// by `order` (a seed for the permutation)
    pub phases: Vec<(Vec<Tx>, u16)>,
}

/// operations biased to few keys so that the same key is inserted, deleted and re-inserted quickly
fn hot_op() -> impl Strategy<Value = SOp> {
    prop_oneof![
        3 => (0u8..2, any::<u8>(), any::<u8>(), any::<u8>()).prop_map(|(id, name, env, weight)| SOp::UpsertSvc { id, name, env, weight }),
        3 => (0u8..2).prop_map(|id| SOp::DelSvc { id }),
        3 => (0u8..2, 0u8..2, any::<u8>(), any::<bool>()).prop_map(|(svc, node, port, up)| SOp::UpsertInst { svc, node, port, up }),
        3 => (0u8..2, 0u8..2).prop_map(|(svc, node)| SOp::DelInst { svc, node }),
        1 => (0u8..2, 0u8..2, 0u8..3).prop_map(|(svc, node, to)| SOp::MoveInst { svc, node, to }),
        2 => (0u8..2, any::<u8>(), any::<u8>()).prop_map(|(k, svc, note)| SOp::UpsertMeta { k, svc, note }),
        2 => (0u8..2).prop_map(|k| SOp::DelMeta { k }),
        3 => sop_strategy(),
    ]
}

fn tx() -> impl Strategy<Value = Tx> {
    (prop_oneof![2 => Just(0u8), 1 => Just(1u8), 1 => Just(2u8)], proptest::collection::vec(hot_op(), 1..4)).prop_map(|(origin, ops)| Tx { origin, ops, hold: true })
}

pub fn case_strategy(max_phases: usize) -> impl Strategy<Value = Case> {
    (0u8..3, proptest::collection::vec(tx(), 0..5), proptest::collection::vec((proptest::collection::vec(tx(), 2..8), any::<u16>()), 1..max_phases)).prop_map(|(table, pre, phases)| Case { table, pre, phases })
}

fn permute<T>(v: &mut [T], seed: u16) {
    // Fisher-Yates driven by a small LCG: a pure function of the case
    let mut s = (seed as u32).wrapping_mul(2654435761u32).wrapping_add(12345);
    for i in (1..v.len()).rev() {
        s = s.wrapping_mul(1664525).wrapping_add(1013904223);
        let j = (s >> 8) as usize % (i + 1);
        v.swap(i, j);
    }
}

/// key -> rendered row, straight from the node's table
fn table_rows(cl: &Cluster, table: &str, pk: &str) -> Result<BTreeMap<String, String>, Fail> {
    let conn = cl.b.agent.pool().client_dedicated_readonly().map_err(|e| Fail::infra(e.to_string()))?;
    let keys = query_result(&conn, &format!("SELECT {pk} FROM {table} ORDER BY {pk}")).map_err(|e| Fail::infra(e.to_string()))?;
    let rows = query_result(&conn, &format!("SELECT * FROM {table} ORDER BY {pk}")).map_err(|e| Fail::infra(e.to_string()))?;
    // both sorted as strings: pair them through a second query keyed explicitly
    let mut out = BTreeMap::new();
    if keys.len() == rows.len() {
        let mut st = conn.prepare(&format!("SELECT {pk}, * FROM {table}")).map_err(|e| Fail::infra(e.to_string()))?;
        let nk = pk.split(',').count();
        let n = st.column_count();
        let mut q = st.query([]).map_err(|e| Fail::infra(e.to_string()))?;
        while let Some(r) = q.next().map_err(|e| Fail::infra(e.to_string()))? {
            let mut cells = vec![];
            for i in 0..n {
                let v: rusqlite::types::Value = r.get(i).map_err(|e| Fail::infra(e.to_string()))?;
                cells.push(match v {
                    rusqlite::types::Value::Null => serde_json::Value::Null,
                    rusqlite::types::Value::Integer(i) => serde_json::Value::from(i),
                    rusqlite::types::Value::Real(f) => serde_json::Value::from(f),
                    rusqlite::types::Value::Text(s) => serde_json::Value::from(s),
                    rusqlite::types::Value::Blob(b) => serde_json::Value::from(b),
                });
            }
            let key = serde_json::Value::Array(cells[..nk].to_vec()).to_string();
            let row = serde_json::Value::Array(cells[nk..].to_vec()).to_string();
            out.insert(key, row);
        }
    }
    Ok(out)
}

async fn run_case(case: &Case, info: &mut CaseInfo, root: std::path::PathBuf) -> Result<(), Fail> {
    let mut cl = Cluster::start(&root, |_| {}).await?;
    let (table, pk) = TABLES[case.table as usize % TABLES.len()];
    for tx in &case.pre {
        info.total_ops += 1;
        cl.tx(tx).await?;
    }
    cl.release_held().await?;
    // wait for the remote part of the preamble before attaching
    let t0 = tokio::time::Instant::now();
    while !cl.remote_applied().await? {
        ensure!(t0.elapsed() < Duration::from_secs(10), "infra", "preamble not applied within 10 s");
        tokio::time::sleep(Duration::from_millis(20)).await;
    }
    let ct: Vec<(String, String)> = vec![("content-type".into(), "application/json".into())];
    let mut feed = open_stream(cl.b.api_addr, "POST", &format!("/v1/updates/{table}"), &ct, None).await.map_err(|e| Fail::infra(e.0))?;
    ensure!(feed.status == 200, "infra", "update feed for {table} refused: {}", feed.status);
    // the listener is registered once the response headers are there

    // last notification per key, and all notifications in order
    let mut last: BTreeMap<String, String> = BTreeMap::new();
    let mut total_notifications = 0;
    let mut deletes_seen = 0;
    let mut refates = 0;
    let mut log: Vec<String> = vec![];
    for (pi, (phase, order)) in case.phases.iter().enumerate() {
        let before = table_rows(&cl, table, pk)?;
        let mut notified_in_phase: BTreeMap<String, usize> = BTreeMap::new();
        for tx in phase {
            info.total_ops += 1;
            cl.tx(tx).await?;
        }
        let mut held = std::mem::take(&mut cl.held);
        permute(&mut held, *order);
        cl.deliver(&held).await?;
        // quiescence: remote changes applied, then the feed silent for longer than its batching window;
        // verdicts are only taken at the ceiling
        let ceiling = Duration::from_secs(8);
        let t0 = tokio::time::Instant::now();
        let mut quiet_since = tokio::time::Instant::now();
        loop {
            let evs = feed.drain();
            if !evs.is_empty() {
                quiet_since = tokio::time::Instant::now();
            }
            for ev in evs {
                if let Some(e) = ev.get("error") {
                    return Err(Fail::new("feed-ended-with-error", format!("phase {pi}: {e}")));
                }
                let n = ev.get("notify").ok_or_else(|| Fail::new("event-shape", format!("unknown event {ev}")))?;
                let ty = n.get(0).and_then(|v| v.as_str()).unwrap_or("").to_string();
                let key = n.get(1).map(|v| v.to_string()).unwrap_or_default();
                ensure!(ty == "update" || ty == "delete", "event-shape", "unknown notification type in {ev}");
                if log.len() < 300 {
                    log.push(format!("{ty} {key}"));
                }
                total_notifications += 1;
                if ty == "delete" {
                    deletes_seen += 1;
                }
                if let Some(prev) = last.insert(key.clone(), ty.clone()) {
                    if prev != ty {
                        refates += 1;
                    }
                }
                *notified_in_phase.entry(key).or_default() += 1;
            }
            let applied = cl.remote_applied().await?;
            let now = table_rows(&cl, table, pk)?;
            // what must hold once quiet
            let mut missing: Vec<String> = vec![];
            for k in before.keys().chain(now.keys()) {
                if before.get(k) != now.get(k) && !notified_in_phase.contains_key(k) && !missing.contains(k) {
                    missing.push(k.clone());
                }
            }
            let mut wrong: Vec<(String, String, bool)> = vec![];
            for (k, ty) in &last {
                let exists = now.contains_key(k);
                if (ty == "delete") == exists {
                    wrong.push((k.clone(), ty.clone(), exists));
                }
            }
            let quiet = quiet_since.elapsed() > Duration::from_millis(900);
            if applied && quiet && missing.is_empty() && wrong.is_empty() {
                break;
            }
            if t0.elapsed() > ceiling {
                ensure!(applied, "infra", "phase {pi}: remote changes not applied within {ceiling:?}");
                let what = format!("phase {pi} on {table}: {:?} (remote order seed {order})", phase.iter().map(|t| (t.origin, t.ops.iter().map(crate::c11::sop_sql).collect::<Vec<_>>())).collect::<Vec<_>>());
                if std::env::var_os("KVERIF_TRACE").is_some() {
                    let conn = cl.b.agent.pool().client_dedicated_readonly().map_err(|e| Fail::infra(e.to_string()))?;
                    let rows = query_result(&conn, &format!(r#"SELECT hex(pk), cid, val, col_version, db_version, cl, seq, hex(substr(site_id,1,3)) FROM crsql_changes WHERE "table" = '{table}' ORDER BY 1,2"#)).map_err(|e| Fail::infra(e.to_string()))?;
                    eprintln!("crsql_changes of {table} on the node: {rows:?}");
                }
                ensure!(missing.is_empty(), "every-changed-key-is-notified", "{what}: rows of keys {missing:?} differ between the start and the end of the phase but no notification arrived for them; notifications so far: {log:?}");
                ensure!(wrong.is_empty(), "last-notification-tells-the-final-fate", "{what}: (key, last notification, row exists) = {wrong:?}; notifications so far: {log:?}");
                break;
            }
            tokio::time::sleep(Duration::from_millis(50)).await;
        }
    }
    const TCLASS: [&str; 3] = ["table-svc", "table-inst", "table-meta"];
    info.class(TCLASS[case.table as usize % 3]);
    if deletes_seen > 0 {
        info.class("delete-notifications");
    }
    if refates > 0 {
        info.class("key-changed-fate");
    }
    if cl.remote_versions > 0 {
        info.class("remote-changes");
    }
    info.nontrivial = total_notifications >= 3 && deletes_seen >= 1 && refates >= 1;
    cl.b.abandon_in_place().await;
    Ok(())
}

pub fn check(case: &Case, info: &mut CaseInfo) -> Result<(), Fail> {
    let root = sim::scratch_root();
    let _ = std::fs::create_dir_all(&root);
    let dir = tempfile::Builder::new().prefix("c14-").tempdir_in(root).map_err(|e| Fail::infra(e.to_string()))?;
    let rt = sim::new_runtime(3);
    let r = rt.block_on(run_case(case, info, dir.path().to_path_buf()));
    rt.shutdown_timeout(Duration::from_millis(200));
    r
}

pub fn run(ctx: &Ctx, rep: &mut Report) {
    let (n, phases) = match ctx.tier {
        Tier::Quick => (240, 4),
        Tier::Thorough => (2_000, 7),
    };
    run_prop(ctx, rep, "feeds", case_strategy(phases), n, 60, check);
}

pub fn replay(_sub: &str, case: &serde_json::Value) -> Result<CaseInfo, Fail> {
    replay_case::<Case, _>(case, check)
}
