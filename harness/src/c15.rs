//! C15 – schema changes are additive, atomic, idempotent and survive restart.
//! Engine E2 node (real `setup()`), schema submissions through the real `/v1/migrations` handler,
//! data through the real `/v1/transactions` handler.  The harness keeps a desired-state model of the
//! accepted table definitions only to *render* submissions; the oracle compares observations of the
//! database (table_xinfo, rows, indexes, crsql_changes, __corro_schema) and of `agent.schema()` taken
//! before and after every submission.

use std::collections::BTreeMap;

use axum::Extension;
use klukai_agent::api::public::api_v1_db_schema;
use klukai_types::api::Statement;
use proptest::prelude::*;
use serde::{Deserialize, Serialize};

use crate::{
    c01::with_world,
    common::{CaseInfo, Ctx, Fail, Report, Tier, replay_case, run_prop},
    ensure,
    sim::{SimNode, node_config},
};

// ------------------------------------------------------------------------------------------------
// desired-state model (rendering only)

#[derive(Debug, Clone, Serialize, Deserialize, PartialEq)]
pub struct ColSpec {
    /// index into TYPES
    pub ty: u8,
    /// 0 nullable, 1 nullable + default, 2 NOT NULL + default, 3 NOT NULL without default (forbidden)
    pub null: u8,
    pub dflt: u8,
    /// rendered with a REFERENCES clause (forbidden)
    pub fk: bool,
}

#[derive(Debug, Clone, Serialize, Deserialize, PartialEq)]
pub struct IdxSpec {
    pub cols: Vec<u8>,
    pub desc: bool,
    pub filtered: bool,
    pub unique: bool,
}

#[derive(Debug, Clone, Serialize, Deserialize, PartialEq)]
pub struct TableSpec {
    /// 0: id INTEGER NOT NULL PRIMARY KEY; 1: PRIMARY KEY (id, k); 2: k TEXT NOT NULL PRIMARY KEY;
    /// 3: PRIMARY KEY (k, id) (reorder of 1); 4: no primary key at all; 5: nullable primary key
    pub pk: u8,
    pub cols: BTreeMap<u8, ColSpec>,
    /// columns (by number) that are additionally part of the primary key (forbidden edits)
    pub extra_pk: Vec<u8>,
    pub idx: BTreeMap<u8, IdxSpec>,
    /// table-level CHECK / UNIQUE constraint
    pub tail: u8,
}

const TYPES: [&str; 8] = ["INTEGER", "TEXT", "BLOB", "REAL", "", "JSON", "BOOLEAN", "VARCHAR(20)"];

fn dflt_text(ty: u8, d: u8) -> String {
    match TYPES[ty as usize % TYPES.len()] {
        "INTEGER" | "BOOLEAN" => format!("{}", d as i64 - 3),
        "REAL" => format!("{}.5", d),
        "BLOB" => format!("X'0{}'", d % 10),
        _ => format!("'d{d}'"),
    }
}

fn render_col(k: u8, c: &ColSpec) -> String {
    let ty = TYPES[c.ty as usize % TYPES.len()];
    let mut s = format!("c{k}");
    if !ty.is_empty() {
        s.push(' ');
        s.push_str(ty);
    }
    match c.null {
        0 => {}
        1 => s.push_str(&format!(" DEFAULT {}", dflt_text(c.ty, c.dflt))),
        2 => s.push_str(&format!(" NOT NULL DEFAULT {}", dflt_text(c.ty, c.dflt))),
        _ => s.push_str(" NOT NULL"),
    }
    if c.fk {
        s.push_str(" REFERENCES t0 (id)");
    }
    s
}

fn render_table(n: u8, t: &TableSpec, stmts: &mut Vec<String>) {
    let mut parts: Vec<String> = vec![];
    let mut pk_cols: Vec<String> = vec![];
    match t.pk {
        0 => parts.push(if t.extra_pk.is_empty() { "id INTEGER NOT NULL PRIMARY KEY".into() } else { "id INTEGER NOT NULL".into() }),
        1 | 3 => {
            parts.push("id INTEGER NOT NULL".into());
            parts.push("k TEXT NOT NULL".into());
        }
        2 => parts.push(if t.extra_pk.is_empty() { "k TEXT NOT NULL PRIMARY KEY".into() } else { "k TEXT NOT NULL".into() }),
        4 => parts.push("id INTEGER NOT NULL".into()),
        _ => parts.push("id INTEGER PRIMARY KEY".into()),
    }
    match t.pk {
        0 if !t.extra_pk.is_empty() => pk_cols.push("id".into()),
        2 if !t.extra_pk.is_empty() => pk_cols.push("k".into()),
        1 => pk_cols.extend(["id".to_string(), "k".to_string()]),
        3 => pk_cols.extend(["k".to_string(), "id".to_string()]),
        _ => {}
    }
    for (k, c) in &t.cols {
        parts.push(render_col(*k, c));
    }
    for k in &t.extra_pk {
        pk_cols.push(format!("c{k}"));
    }
    if !pk_cols.is_empty() {
        parts.push(format!("PRIMARY KEY ({})", pk_cols.join(", ")));
    }
    match t.tail {
        1 => parts.push("CHECK (id <> -1)".into()),
        2 => parts.push("UNIQUE (id)".into()),
        _ => {}
    }
    stmts.push(format!("CREATE TABLE t{n} ({})", parts.join(", ")));
    for (i, ix) in &t.idx {
        let cols: Vec<String> = ix
            .cols
            .iter()
            .map(|c| {
                let name = if t.cols.contains_key(c) { format!("c{c}") } else { pk_name(t).to_string() };
                if ix.desc { format!("{name} DESC") } else { name }
            })
            .collect();
        let cols = if cols.is_empty() { vec![pk_name(t).to_string()] } else { cols };
        stmts.push(format!(
            "CREATE {}INDEX t{n}_i{i} ON t{n} ({}){}",
            if ix.unique { "UNIQUE " } else { "" },
            cols.join(", "),
            if ix.filtered { format!(" WHERE {} IS NOT NULL", pk_name(t)) } else { String::new() }
        ));
    }
}

fn pk_name(t: &TableSpec) -> &'static str {
    if t.pk == 2 { "k" } else { "id" }
}

// ------------------------------------------------------------------------------------------------
// generated cases

#[derive(Debug, Clone, Serialize, Deserialize)]
pub enum Edit {
    // benign
    NewTable { t: u8, pk: u8, cols: Vec<(u8, ColSpec)>, idx: Option<IdxSpec> },
    AddCol { t: u8, c: u8, spec: ColSpec },
    AddIndex { t: u8, i: u8, spec: IdxSpec },
    ChangeIndex { t: u8, spec: IdxSpec },
    DropIndex { t: u8 },
    Resubmit { t: u8 },
    // forbidden
    DropCol { t: u8, pick: u8 },
    ChangeType { t: u8, pick: u8 },
    ChangeDefault { t: u8, pick: u8 },
    ChangeNull { t: u8, pick: u8 },
    PkAddExisting { t: u8, pick: u8 },
    PkAddNew { t: u8, c: u8 },
    PkReorder { t: u8 },
    PkSwitch { t: u8 },
    UniqueIndex { t: u8, i: u8 },
    ForeignKey { t: u8, c: u8 },
    NotNullNoDefault { t: u8, c: u8 },
    TableConstraint { t: u8, kind: u8 },
    NewTableBad { t: u8, kind: u8 },
    /// a raw statement at a generated position of the submission
    Raw { kind: u8, pos: u8 },
}

#[derive(Debug, Clone, Serialize, Deserialize)]
pub enum Step {
    Submit { edits: Vec<Edit>, include_all: bool, twice: bool },
    Write { t: u8, key: u8, tag: u16, delete: bool },
    Restart,
}

#[derive(Debug, Clone, Serialize, Deserialize)]
pub struct Case {
    pub steps: Vec<Step>,
}

fn col_spec(benign: bool) -> impl Strategy<Value = ColSpec> {
    (0u8..8, if benign { 0u8..3 } else { 0u8..3 }, 0u8..6).prop_map(|(ty, null, dflt)| ColSpec { ty, null, dflt, fk: false })
}

fn idx_spec() -> impl Strategy<Value = IdxSpec> {
    (proptest::collection::vec(0u8..6, 1..3), any::<bool>(), any::<bool>()).prop_map(|(cols, desc, filtered)| IdxSpec { cols, desc, filtered, unique: false })
}

fn edit_strategy() -> impl Strategy<Value = Edit> {
    let t = || 0u8..4;
    prop_oneof![
        5 => (t(), 0u8..3, proptest::collection::vec((0u8..6, col_spec(true)), 0..4), proptest::option::of(idx_spec())).prop_map(|(t, pk, cols, idx)| Edit::NewTable { t, pk, cols, idx }),
        6 => (t(), 0u8..8, col_spec(true)).prop_map(|(t, c, spec)| Edit::AddCol { t, c, spec }),
        3 => (t(), 0u8..3, idx_spec()).prop_map(|(t, i, spec)| Edit::AddIndex { t, i, spec }),
        2 => (t(), idx_spec()).prop_map(|(t, spec)| Edit::ChangeIndex { t, spec }),
        2 => t().prop_map(|t| Edit::DropIndex { t }),
        2 => t().prop_map(|t| Edit::Resubmit { t }),
        3 => (t(), any::<u8>()).prop_map(|(t, pick)| Edit::DropCol { t, pick }),
        2 => (t(), any::<u8>()).prop_map(|(t, pick)| Edit::ChangeType { t, pick }),
        2 => (t(), any::<u8>()).prop_map(|(t, pick)| Edit::ChangeDefault { t, pick }),
        2 => (t(), any::<u8>()).prop_map(|(t, pick)| Edit::ChangeNull { t, pick }),
        2 => (t(), any::<u8>()).prop_map(|(t, pick)| Edit::PkAddExisting { t, pick }),
        2 => (t(), 0u8..8).prop_map(|(t, c)| Edit::PkAddNew { t, c }),
        2 => t().prop_map(|t| Edit::PkReorder { t }),
        1 => t().prop_map(|t| Edit::PkSwitch { t }),
        1 => (t(), 0u8..3).prop_map(|(t, i)| Edit::UniqueIndex { t, i }),
        1 => (t(), 0u8..8).prop_map(|(t, c)| Edit::ForeignKey { t, c }),
        2 => (t(), 0u8..8).prop_map(|(t, c)| Edit::NotNullNoDefault { t, c }),
        1 => (t(), 1u8..3).prop_map(|(t, kind)| Edit::TableConstraint { t, kind }),
        2 => (t(), 0u8..4).prop_map(|(t, kind)| Edit::NewTableBad { t, kind }),
        3 => (0u8..12, 0u8..6).prop_map(|(kind, pos)| Edit::Raw { kind, pos }),
    ]
}

fn step_strategy() -> impl Strategy<Value = Step> {
    prop_oneof![
        6 => (proptest::collection::vec(edit_strategy(), 1..4), any::<bool>(), prop_oneof![3 => Just(false), 1 => Just(true)]).prop_map(|(edits, include_all, twice)| Step::Submit { edits, include_all, twice }),
        5 => (0u8..4, 0u8..6, any::<u16>(), prop_oneof![4 => Just(false), 1 => Just(true)]).prop_map(|(t, key, tag, delete)| Step::Write { t, key, tag, delete }),
        1 => Just(Step::Restart),
    ]
}

pub fn case_strategy(max_steps: usize) -> impl Strategy<Value = Case> {
    proptest::collection::vec(step_strategy(), 4..max_steps).prop_map(|steps| Case { steps })
}

// ------------------------------------------------------------------------------------------------
// observation

#[derive(Debug, Clone, PartialEq)]
struct TableObs {
    /// (name, declared type, notnull, default, pk ordinal, hidden)
    cols: Vec<(String, String, i64, Option<String>, i64, i64)>,
    /// rows as name -> rendering, sorted
    rows: Vec<BTreeMap<String, String>>,
    indexes: BTreeMap<String, String>,
    sql: String,
}

#[derive(Debug, Clone, PartialEq)]
struct MemTable {
    cols: BTreeMap<String, String>,
    pk: Vec<String>,
    indexes: BTreeMap<String, String>,
}

#[derive(Debug, Clone, PartialEq)]
struct Obs {
    db: BTreeMap<String, TableObs>,
    cells: Vec<String>,
    corro_schema: Vec<String>,
    mem: BTreeMap<String, MemTable>,
    db_version: i64,
    other_objects: Vec<String>,
}

fn is_user_table(n: &str) -> bool {
    !(n.starts_with("sqlite_") || n.starts_with("__corro") || n.starts_with("crsql_") || n.contains("__crsql_"))
}

async fn observe(node: &SimNode) -> Result<Obs, Fail> {
    let mem = {
        let schema = node.agent.schema().read();
        schema
            .tables
            .iter()
            .map(|(name, t)| {
                (
                    name.clone(),
                    MemTable {
                        cols: t.columns.iter().map(|(n, c)| (n.clone(), format!("{:?} nullable={} default={:?} pk={} generated={}", c.sql_type, c.nullable, c.default_value, c.primary_key, c.generated.is_some()))).collect(),
                        pk: t.pk.iter().cloned().collect(),
                        indexes: t.indexes.iter().map(|(n, i)| (n.clone(), format!("on {} unique={} cols={:?} where={:?}", i.tbl_name, i.unique, i.columns, i.where_clause))).collect(),
                    },
                )
            })
            .collect::<BTreeMap<_, _>>()
    };
    // a dedicated connection per observation: pooled read connections that were checked out while a
    // schema change committed keep cr-sqlite's old table definitions (the pool is only drained of idle
    // ones) and then fail to read crsql_changes; that is outside what C15 states (see DESIGN.md)
    let conn = node.agent.pool().client_dedicated_readonly().map_err(|e| Fail::infra(format!("read conn: {e}")))?;
    let r: rusqlite::Result<Obs> = tokio::task::block_in_place(|| {
        let mut db = BTreeMap::new();
        let objs: Vec<(String, String, String, Option<String>)> = conn
            .prepare("SELECT type, name, tbl_name, sql FROM sqlite_schema ORDER BY name")?
            .query_map([], |r| Ok((r.get(0)?, r.get(1)?, r.get(2)?, r.get(3)?)))?
            .collect::<rusqlite::Result<_>>()?;
        let mut other_objects = vec![];
        for (ty, name, _tbl, sql) in &objs {
            if ty == "table" && is_user_table(name) {
                let cols: Vec<(String, String, i64, Option<String>, i64, i64)> = conn
                    .prepare(&format!("SELECT name, type, \"notnull\", dflt_value, pk, hidden FROM pragma_table_xinfo('{name}') ORDER BY cid"))?
                    .query_map([], |r| Ok((r.get(0)?, r.get(1)?, r.get(2)?, r.get(3)?, r.get(4)?, r.get(5)?)))?
                    .collect::<rusqlite::Result<_>>()?;
                let mut rows = vec![];
                {
                    let mut st = conn.prepare(&format!("SELECT * FROM \"{name}\""))?;
                    let names: Vec<String> = st.column_names().iter().map(|s| s.to_string()).collect();
                    let mut q = st.query([])?;
                    while let Some(r) = q.next()? {
                        let mut m = BTreeMap::new();
                        for (i, n) in names.iter().enumerate() {
                            let v: rusqlite::types::Value = r.get(i)?;
                            m.insert(n.clone(), format!("{v:?}"));
                        }
                        rows.push(m);
                    }
                }
                rows.sort();
                db.insert(name.clone(), TableObs { cols, rows, indexes: BTreeMap::new(), sql: sql.clone().unwrap_or_default() });
            }
        }
        for (ty, name, tbl, sql) in &objs {
            if ty == "index" && is_user_table(tbl) {
                // sqlite_autoindex_* (implicit, no sql) belong to the table definition
                if sql.is_none() {
                    continue;
                }
                if let Some(t) = db.get_mut(tbl) {
                    t.indexes.insert(name.clone(), sql.clone().unwrap_or_default());
                }
            } else if !(ty == "table" && is_user_table(name)) && is_user_table(tbl) {
                other_objects.push(format!("{ty} {name} on {tbl}"));
            }
        }
        let cells: Vec<String> = conn
            .prepare("SELECT \"table\", hex(pk), cid, quote(val), col_version, db_version, hex(site_id), cl, seq FROM crsql_changes ORDER BY 1, 2, 3, 6, 9")?
            .query_map([], |r| {
                Ok(format!(
                    "{}|{}|{}|{}|cv{}|dbv{}|{}|cl{}|s{}",
                    r.get::<_, String>(0)?,
                    r.get::<_, String>(1)?,
                    r.get::<_, String>(2)?,
                    r.get::<_, String>(3)?,
                    r.get::<_, i64>(4)?,
                    r.get::<_, i64>(5)?,
                    r.get::<_, String>(6)?,
                    r.get::<_, i64>(7)?,
                    r.get::<_, i64>(8)?
                ))
            })?
            .collect::<rusqlite::Result<_>>()
            .map_err(|e| rusqlite::Error::ModuleError(format!("reading crsql_changes: {e}")))?;
        let corro_schema: Vec<String> = conn
            .prepare("SELECT tbl_name, type, name, sql FROM __corro_schema ORDER BY 1, 2, 3")?
            .query_map([], |r| Ok(format!("{}|{}|{}|{}", r.get::<_, String>(0)?, r.get::<_, String>(1)?, r.get::<_, String>(2)?, r.get::<_, String>(3)?)))?
            .collect::<rusqlite::Result<_>>()?;
        let db_version: i64 = conn.query_row("SELECT crsql_db_version()", [], |r| r.get(0))?;
        Ok(Obs { db, cells, corro_schema, mem: BTreeMap::new(), db_version, other_objects })
    });
    // a connection opened for this observation alone cannot be stale: if it cannot read the tables or the change
    // records, the database itself is damaged
    let mut o = r.map_err(|e| Fail::new("database-stays-readable", format!("a fresh connection cannot read the database: {e}")))?;
    o.mem = mem;
    Ok(o)
}

fn diff(a: &Obs, b: &Obs) -> String {
    let mut out = vec![];
    if a.db != b.db {
        for (n, t) in &a.db {
            match b.db.get(n) {
                None => out.push(format!("table {n} disappeared")),
                Some(t2) if t2 != t => {
                    if t.cols != t2.cols {
                        out.push(format!("table {n} columns {:?} -> {:?}", t.cols, t2.cols));
                    }
                    if t.rows != t2.rows {
                        out.push(format!("table {n} rows {} -> {}", t.rows.len(), t2.rows.len()));
                    }
                    if t.indexes != t2.indexes {
                        out.push(format!("table {n} indexes {:?} -> {:?}", t.indexes, t2.indexes));
                    }
                    if t.sql != t2.sql {
                        out.push(format!("table {n} sql {:?} -> {:?}", t.sql, t2.sql));
                    }
                }
                _ => {}
            }
        }
        for n in b.db.keys() {
            if !a.db.contains_key(n) {
                out.push(format!("table {n} appeared"));
            }
        }
    }
    if a.cells != b.cells {
        out.push(format!("crsql_changes {} -> {} rows", a.cells.len(), b.cells.len()));
    }
    if a.corro_schema != b.corro_schema {
        out.push(format!("__corro_schema {:?} -> {:?}", a.corro_schema, b.corro_schema));
    }
    if a.mem != b.mem {
        out.push(format!("agent.schema() {:?} -> {:?}", a.mem, b.mem));
    }
    if a.db_version != b.db_version {
        out.push(format!("db_version {} -> {}", a.db_version, b.db_version));
    }
    if a.other_objects != b.other_objects {
        out.push(format!("other objects {:?} -> {:?}", a.other_objects, b.other_objects));
    }
    let s = out.join("; ");
    s.chars().take(1500).collect()
}

/// what an *accepted* submission may do: add tables, add columns, add/replace/drop indexes
fn check_additive(before: &Obs, after: &Obs, what: &str) -> Result<(), Fail> {
    for (n, t) in &before.db {
        let t2 = match after.db.get(n) {
            Some(t2) => t2,
            None => return Err(Fail::new("no-table-dropped", format!("{what}: table {n} no longer exists"))),
        };
        for c in &t.cols {
            match t2.cols.iter().find(|c2| c2.0 == c.0) {
                None => return Err(Fail::new("no-column-dropped", format!("{what}: column {n}.{} no longer exists", c.0))),
                Some(c2) => ensure!(c2 == c, "existing-column-definition-unchanged", "{what}: column {n}.{} changed {c:?} -> {c2:?}", c.0),
            }
        }
        let pk = |t: &TableObs| {
            let mut v: Vec<(i64, String)> = t.cols.iter().filter(|c| c.4 > 0).map(|c| (c.4, c.0.clone())).collect();
            v.sort();
            v
        };
        ensure!(pk(t) == pk(t2), "primary-key-unchanged", "{what}: primary key of {n} changed {:?} -> {:?}", pk(t), pk(t2));
        let old_names: Vec<&String> = t.cols.iter().map(|c| &c.0).collect();
        let project = |rows: &Vec<BTreeMap<String, String>>| {
            let mut v: Vec<Vec<(String, String)>> = rows.iter().map(|r| old_names.iter().filter_map(|n| r.get(*n).map(|v| ((*n).clone(), v.clone()))).collect()).collect();
            v.sort();
            v
        };
        ensure!(project(&t.rows) == project(&t2.rows), "existing-rows-kept", "{what}: rows of {n} changed: {:?} -> {:?}", t.rows, t2.rows);
    }
    for c in &before.cells {
        ensure!(after.cells.binary_search(c).is_ok() || after.cells.contains(c), "crdt-metadata-kept", "{what}: change record {c} disappeared from crsql_changes");
    }
    for (n, t) in &before.mem {
        let t2 = match after.mem.get(n) {
            Some(t2) => t2,
            None => return Err(Fail::new("no-table-dropped", format!("{what}: table {n} left agent.schema()"))),
        };
        for (cn, c) in &t.cols {
            match t2.cols.get(cn) {
                None => return Err(Fail::new("no-column-dropped", format!("{what}: column {n}.{cn} left agent.schema()"))),
                Some(c2) => ensure!(c2 == c, "existing-column-definition-unchanged", "{what}: agent.schema() column {n}.{cn} changed {c} -> {c2}"),
            }
        }
        ensure!(t.pk == t2.pk, "primary-key-unchanged", "{what}: agent.schema() primary key of {n} changed {:?} -> {:?}", t.pk, t2.pk);
    }
    Ok(())
}

/// the schema the node works with describes the database
fn check_mem_matches_db(o: &Obs, what: &str) -> Result<(), Fail> {
    for (n, m) in &o.mem {
        let t = match o.db.get(n) {
            Some(t) => t,
            None => return Err(Fail::new("working-schema-describes-database", format!("{what}: agent.schema() has table {n}, the database does not"))),
        };
        let mut a: Vec<&String> = m.cols.keys().collect();
        let mut b: Vec<&String> = t.cols.iter().filter(|c| c.5 == 0).map(|c| &c.0).collect();
        a.sort();
        b.sort();
        ensure!(a == b, "working-schema-describes-database", "{what}: columns of {n}: agent.schema() {a:?}, database {b:?}");
        let mut pk: Vec<(i64, &String)> = t.cols.iter().filter(|c| c.4 > 0).map(|c| (c.4, &c.0)).collect();
        pk.sort();
        let pk: Vec<&String> = pk.into_iter().map(|p| p.1).collect();
        let mpk: Vec<&String> = m.pk.iter().collect();
        ensure!(pk == mpk, "working-schema-describes-database", "{what}: primary key of {n}: agent.schema() {mpk:?}, database {pk:?}");
        let ia: Vec<&String> = m.indexes.keys().collect();
        let ib: Vec<&String> = t.indexes.keys().collect();
        ensure!(ia == ib, "working-schema-describes-database", "{what}: indexes of {n}: agent.schema() {ia:?}, database {ib:?}");
    }
    for n in o.db.keys() {
        ensure!(o.mem.contains_key(n), "working-schema-describes-database", "{what}: database has table {n}, agent.schema() does not");
    }
    Ok(())
}

// ------------------------------------------------------------------------------------------------
// interpreter

fn raw_stmt(kind: u8) -> &'static str {
    match kind {
        0 => "CREATE TABLE oops (id INTEGER NOT NULL PRIMARY KEY,",
        1 => "DROP TABLE t0",
        2 => "INSERT INTO t0 (id) VALUES (991)",
        3 => "CREATE TEMP TABLE tmp1 (id INTEGER NOT NULL PRIMARY KEY)",
        4 => "CREATE TABLE asel AS SELECT 1 AS id",
        5 => "CREATE INDEX orphan_i ON missing_table (a)",
        6 => "ALTER TABLE t0 ADD COLUMN zz TEXT",
        7 => "CREATE TABLE pkexpr (a INTEGER NOT NULL, b TEXT, PRIMARY KEY (a + 1))",
        8 => "CREATE VIEW v1 AS SELECT 1",
        9 => "CREATE TRIGGER trg AFTER INSERT ON t0 BEGIN SELECT 1; END",
        10 => "DELETE FROM t0",
        _ => "this is not sql",
    }
}

fn pick_col(t: &TableSpec, pick: u8) -> Option<u8> {
    let keys: Vec<u8> = t.cols.keys().cloned().collect();
    if keys.is_empty() { None } else { Some(keys[pick as usize % keys.len()]) }
}

/// apply one edit to the desired state; returns (touched table, expected-to-be-refused)
fn apply_edit(want: &mut BTreeMap<u8, TableSpec>, cur: &BTreeMap<u8, TableSpec>, e: &Edit, raws: &mut Vec<(u8, u8)>) -> Option<(u8, bool)> {
    match e {
        Edit::NewTable { t, pk, cols, idx } => {
            if cur.contains_key(t) || want.contains_key(t) && !cur.contains_key(t) {
                // exists already: treat as a resubmission of the current definition
                return cur.contains_key(t).then_some((*t, false));
            }
            let mut spec = TableSpec { pk: *pk, cols: cols.iter().cloned().collect(), extra_pk: vec![], idx: BTreeMap::new(), tail: 0 };
            if let Some(ix) = idx {
                spec.idx.insert(0, ix.clone());
            }
            want.insert(*t, spec);
            Some((*t, false))
        }
        Edit::Raw { kind, pos } => {
            raws.push((*kind, *pos));
            None
        }
        Edit::NewTableBad { t, kind } => {
            if cur.contains_key(t) || want.contains_key(t) {
                return None;
            }
            let mut spec = TableSpec { pk: 0, cols: BTreeMap::new(), extra_pk: vec![], idx: BTreeMap::new(), tail: 0 };
            match kind {
                0 => spec.pk = 4,
                1 => spec.pk = 5,
                2 => spec.tail = 2,
                _ => {
                    spec.cols.insert(0, ColSpec { ty: 0, null: 3, dflt: 0, fk: false });
                }
            }
            want.insert(*t, spec);
            Some((*t, true))
        }
        other => {
            let t = match other {
                Edit::AddCol { t, .. }
                | Edit::AddIndex { t, .. }
                | Edit::ChangeIndex { t, .. }
                | Edit::DropIndex { t }
                | Edit::Resubmit { t }
                | Edit::DropCol { t, .. }
                | Edit::ChangeType { t, .. }
                | Edit::ChangeDefault { t, .. }
                | Edit::ChangeNull { t, .. }
                | Edit::PkAddExisting { t, .. }
                | Edit::PkAddNew { t, .. }
                | Edit::PkReorder { t }
                | Edit::PkSwitch { t }
                | Edit::UniqueIndex { t, .. }
                | Edit::ForeignKey { t, .. }
                | Edit::NotNullNoDefault { t, .. }
                | Edit::TableConstraint { t, .. } => *t,
                _ => unreachable!(),
            };
            let spec = want.get_mut(&t)?;
            let existed = cur.contains_key(&t);
            let refused = match other {
                Edit::AddCol { c, spec: cs, .. } => {
                    if spec.cols.contains_key(c) {
                        false
                    } else {
                        spec.cols.insert(*c, cs.clone());
                        false
                    }
                }
                Edit::AddIndex { i, spec: ix, .. } => {
                    spec.idx.entry(*i).or_insert_with(|| ix.clone());
                    false
                }
                Edit::ChangeIndex { spec: ix, .. } => {
                    if let Some(first) = spec.idx.keys().next().cloned() {
                        spec.idx.insert(first, ix.clone());
                    }
                    false
                }
                Edit::DropIndex { .. } => {
                    if let Some(first) = spec.idx.keys().next().cloned() {
                        spec.idx.remove(&first);
                    }
                    false
                }
                Edit::Resubmit { .. } => false,
                Edit::DropCol { pick, .. } => match pick_col(spec, *pick) {
                    Some(k) => {
                        spec.cols.remove(&k);
                        spec.idx.clear();
                        existed && cur[&t].cols.contains_key(&k)
                    }
                    None => false,
                },
                Edit::ChangeType { pick, .. } => match pick_col(spec, *pick) {
                    Some(k) => {
                        let c = spec.cols.get_mut(&k).unwrap();
                        c.ty = (c.ty + 1) % 4;
                        existed && cur[&t].cols.contains_key(&k)
                    }
                    None => false,
                },
                Edit::ChangeDefault { pick, .. } => match pick_col(spec, *pick) {
                    Some(k) => {
                        let c = spec.cols.get_mut(&k).unwrap();
                        if c.null == 0 {
                            c.null = 1;
                        } else {
                            c.dflt = (c.dflt + 1) % 6;
                        }
                        existed && cur[&t].cols.contains_key(&k)
                    }
                    None => false,
                },
                Edit::ChangeNull { pick, .. } => match pick_col(spec, *pick) {
                    Some(k) => {
                        let c = spec.cols.get_mut(&k).unwrap();
                        c.null = if c.null == 2 { 1 } else { 2 };
                        existed && cur[&t].cols.contains_key(&k)
                    }
                    None => false,
                },
                Edit::PkAddExisting { pick, .. } => match pick_col(spec, *pick) {
                    Some(k) => {
                        if !spec.extra_pk.contains(&k) {
                            spec.extra_pk.push(k);
                        }
                        true
                    }
                    None => false,
                },
                Edit::PkAddNew { c, .. } => {
                    if !spec.cols.contains_key(c) {
                        spec.cols.insert(*c, ColSpec { ty: 0, null: 2, dflt: 1, fk: false });
                    }
                    if !spec.extra_pk.contains(c) {
                        spec.extra_pk.push(*c);
                    }
                    true
                }
                Edit::PkReorder { .. } => {
                    if spec.pk == 1 {
                        spec.pk = 3;
                        existed
                    } else if spec.pk == 3 {
                        spec.pk = 1;
                        existed
                    } else {
                        false
                    }
                }
                Edit::PkSwitch { .. } => {
                    spec.pk = match spec.pk {
                        0 => 2,
                        2 => 0,
                        1 | 3 => 0,
                        o => o,
                    };
                    existed
                }
                Edit::UniqueIndex { i, .. } => {
                    spec.idx.insert(*i, IdxSpec { cols: vec![], desc: false, filtered: false, unique: true });
                    true
                }
                Edit::ForeignKey { c, .. } => {
                    if spec.cols.contains_key(c) {
                        false
                    } else {
                        spec.cols.insert(*c, ColSpec { ty: 0, null: 0, dflt: 0, fk: true });
                        true
                    }
                }
                Edit::NotNullNoDefault { c, .. } => {
                    if spec.cols.contains_key(c) {
                        false
                    } else {
                        spec.cols.insert(*c, ColSpec { ty: 0, null: 3, dflt: 0, fk: false });
                        true
                    }
                }
                Edit::TableConstraint { kind, .. } => {
                    spec.tail = *kind;
                    false
                }
                _ => false,
            };
            Some((t, refused))
        }
    }
}

async fn submit(node: &SimNode, stmts: Vec<String>) -> (u16, String) {
    let (status, body) = api_v1_db_schema(Extension(node.agent.clone()), axum::Json(stmts)).await;
    (status.as_u16(), format!("{:?}", body.0.results))
}

fn write_stmt(t: u8, spec: &TableSpec, key: u8, tag: u16, delete: bool) -> String {
    let (pk_cols, pk_vals): (Vec<&str>, Vec<String>) = match spec.pk {
        1 | 3 => (vec!["id", "k"], vec![format!("{key}"), format!("'k{}'", key % 2)]),
        2 => (vec!["k"], vec![format!("'k{key}'")]),
        _ => (vec!["id"], vec![format!("{key}")]),
    };
    if delete {
        let cond: Vec<String> = pk_cols.iter().zip(&pk_vals).map(|(c, v)| format!("{c} = {v}")).collect();
        return format!("DELETE FROM t{t} WHERE {}", cond.join(" AND "));
    }
    let mut cols: Vec<String> = pk_cols.iter().map(|s| s.to_string()).collect();
    let mut vals = pk_vals.clone();
    for (i, (k, c)) in spec.cols.iter().enumerate() {
        // leave some columns to their defaults
        if (tag as usize + i) % 3 == 0 && c.null != 3 {
            continue;
        }
        cols.push(format!("c{k}"));
        let v = match TYPES[c.ty as usize % TYPES.len()] {
            "INTEGER" | "BOOLEAN" => format!("{}", tag as i64 + i as i64),
            "REAL" => format!("{}.25", tag),
            "BLOB" => format!("X'{:04X}'", tag),
            _ => format!("'v{tag}-{i}'"),
        };
        vals.push(v);
    }
    // no conflict target: the statement must not depend on what the harness believes the key to be
    format!("INSERT OR REPLACE INTO t{t} ({}) VALUES ({})", cols.join(", "), vals.join(", "))
}

async fn run_case(case: &Case, info: &mut CaseInfo, root: std::path::PathBuf) -> Result<(), Fail> {
    let mut dir = root.join("n0");
    let mut node = SimNode::with_config_schema(0, dir.clone(), node_config(&dir), None).await.map_err(|e| Fail::infra(e.0))?;
    // starting point: two tables holding data
    let mut cur: BTreeMap<u8, TableSpec> = BTreeMap::new();
    {
        let mut want = BTreeMap::new();
        want.insert(0u8, TableSpec { pk: 0, cols: [(0, ColSpec { ty: 1, null: 0, dflt: 0, fk: false }), (1, ColSpec { ty: 0, null: 2, dflt: 4, fk: false })].into_iter().collect(), extra_pk: vec![], idx: BTreeMap::new(), tail: 0 });
        want.insert(1u8, TableSpec { pk: 1, cols: [(0, ColSpec { ty: 2, null: 1, dflt: 2, fk: false })].into_iter().collect(), extra_pk: vec![], idx: [(0, IdxSpec { cols: vec![0], desc: false, filtered: false, unique: false })].into_iter().collect(), tail: 0 });
        let mut stmts = vec![];
        for (n, t) in &want {
            render_table(*n, t, &mut stmts);
        }
        let (st, body) = submit(&node, stmts).await;
        ensure!(st == 200, "infra", "initial schema refused: {st} {body}");
        cur = want;
        for t in 0..2u8 {
            for key in 0..3u8 {
                let sql = write_stmt(t, &cur[&t], key, 100 + key as u16, false);
                let (st, _, res) = node.transact(vec![Statement::Simple(sql.clone())]).await;
                ensure!(st == 200, "infra", "initial row refused: {sql}: {res:?}");
            }
        }
    }
    let mut restarts = 0;
    let mut accepted_changes = 0;
    let mut refused_with_partial_work = 0;

    for (si, step) in case.steps.iter().enumerate() {
        info.total_ops += 1;
        match step {
            Step::Write { t, key, tag, delete } => {
                let Some(spec) = cur.get(t) else {
                    info.skipped_ops += 1;
                    continue;
                };
                let sql = write_stmt(*t, spec, *key, *tag, *delete);
                let (st, _, res) = node.transact(vec![Statement::Simple(sql.clone())]).await;
                if std::env::var_os("KVERIF_TRACE").is_some() {
                    eprintln!("step {si}: write {sql:?} -> {st} {res:?}");
                    continue;
                }
                ensure!(st == 200, "node-works-with-accepted-schema", "step {si}: write {sql:?} refused ({st}): {res:?}");
            }
            Step::Restart => {
                let before = observe(&node).await?;
                let img = root.join(format!("img{si}"));
                node.crash_image(&img).map_err(|e| Fail::infra(e.0))?;
                let new = SimNode::reopen_schema(0, img.clone(), None).await.map_err(|e| Fail::new("node-restarts-with-its-schema", format!("step {si}: restart failed: {}", e.0)))?;
                let after = observe(&new).await?;
                ensure!(before.mem == after.mem, "same-schema-after-restart", "step {si}: agent.schema() differs after restart: {}", diff(&before, &after));
                ensure!(before.db == after.db && before.cells == after.cells, "same-schema-after-restart", "step {si}: database differs after restart: {}", diff(&before, &after));
                node = new;
                dir = img;
                restarts += 1;
            }
            Step::Submit { edits, include_all, twice } => {
                let mut want = cur.clone();
                let mut raws = vec![];
                let mut touched: Vec<u8> = vec![];
                let mut expect_refusal = false;
                for e in edits {
                    if let Some((t, refused)) = apply_edit(&mut want, &cur, e, &mut raws) {
                        if !touched.contains(&t) {
                            touched.push(t);
                        }
                        expect_refusal |= refused;
                    }
                }
                expect_refusal |= !raws.is_empty();
                let mut stmts = vec![];
                let tables: Vec<u8> = if *include_all { want.keys().cloned().collect() } else { touched.clone() };
                // new tables first when include_all is off keeps "first created, second rejected" reachable:
                // order is generated (touched order)
                for t in &tables {
                    if let Some(spec) = want.get(t) {
                        render_table(*t, spec, &mut stmts);
                    }
                }
                for (kind, pos) in &raws {
                    let at = (*pos as usize).min(stmts.len());
                    stmts.insert(at, raw_stmt(*kind).to_string());
                }
                if stmts.is_empty() {
                    info.skipped_ops += 1;
                    continue;
                }
                let before = observe(&node).await?;
                let (st, body) = submit(&node, stmts.clone()).await;
                if std::env::var_os("KVERIF_TRACE").is_some() {
                    eprintln!("step {si}: submit {stmts:?} -> {st} {body}");
                }
                let after = observe(&node).await?;
                let what = format!("step {si}: submission {stmts:?} -> {st} {}", body.chars().take(200).collect::<String>());
                if st == 200 {
                    check_additive(&before, &after, &what)?;
                    check_mem_matches_db(&after, &what)?;
                    if before != after {
                        accepted_changes += 1;
                        info.class("accepted-submission-changed-the-schema");
                    } else {
                        info.class("accepted-submission-changed-nothing");
                    }
                    if expect_refusal {
                        info.class("accepted-although-harness-expected-refusal");
                    }
                    // only what really exists now is the new desired state
                    let mut next = cur.clone();
                    for t in &tables {
                        if let Some(spec) = want.get(t) {
                            next.insert(*t, spec.clone());
                        }
                    }
                    // forbidden edits accepted without effect would desynchronise the renderer: re-derive
                    // the believed state from what the database really has
                    for (t, spec) in next.iter_mut() {
                        if let Some(obs) = after.db.get(&format!("t{t}")) {
                            spec.cols.retain(|k, _| obs.cols.iter().any(|c| c.0 == format!("c{k}")));
                            spec.extra_pk.clear();
                            let pk: Vec<&str> = {
                                let mut v: Vec<(i64, &str)> = obs.cols.iter().filter(|c| c.4 > 0).map(|c| (c.4, c.0.as_str())).collect();
                                v.sort();
                                v.into_iter().map(|p| p.1).collect()
                            };
                            spec.pk = match pk.as_slice() {
                                ["id"] => 0,
                                ["id", "k"] => 1,
                                ["k"] => 2,
                                ["k", "id"] => 3,
                                _ => spec.pk,
                            };
                            spec.idx.retain(|i, _| obs.indexes.contains_key(&format!("t{t}_i{i}")));
                        }
                    }
                    next.retain(|t, _| after.db.contains_key(&format!("t{t}")));
                    cur = next;
                    if *twice {
                        let again = submit(&node, stmts.clone()).await;
                        let third = observe(&node).await?;
                        ensure!(again.0 == 200, "reapplying-applied-schema-changes-nothing", "{what}: accepted once, refused when re-applied: {} {}", again.0, again.1);
                        ensure!(after == third, "reapplying-applied-schema-changes-nothing", "{what}: re-applying changed: {}", diff(&after, &third));
                        info.class("re-applied");
                    }
                } else {
                    ensure!(before == after, "refused-submission-leaves-everything-as-before", "{what}: but: {}", diff(&before, &after));
                    info.class("refused-submission");
                    let new_tables_before_the_problem = tables.iter().any(|t| !cur.contains_key(t));
                    if new_tables_before_the_problem || stmts.len() >= 2 {
                        refused_with_partial_work += 1;
                    }
                    if !expect_refusal {
                        info.class("refused-although-harness-expected-acceptance");
                    }
                }
            }
        }
    }
    // the node still works with what it has
    let fin = observe(&node).await?;
    check_mem_matches_db(&fin, "end of case")?;
    for (t, spec) in &cur {
        let sql = write_stmt(*t, spec, 9, 999, false);
        let (st, _, res) = node.transact(vec![Statement::Simple(sql.clone())]).await;
        ensure!(st == 200, "node-works-with-accepted-schema", "final write {sql:?} refused ({st}): {res:?}");
    }
    if restarts > 0 {
        info.class("restarted");
    }
    let _ = dir;
    info.nontrivial = accepted_changes >= 1 && refused_with_partial_work >= 1;
    if info.nontrivial && restarts > 0 {
        info.class("accepted+refused+restart");
    }
    Ok(())
}

pub fn check(case: &Case, info: &mut CaseInfo) -> Result<(), Fail> {
    with_world("c15-", |root| run_case(case, info, root))
}

pub fn run(ctx: &Ctx, rep: &mut Report) {
    let (n, steps) = match ctx.tier {
        Tier::Quick => (640, 16),
        Tier::Thorough => (12_000, 30),
    };
    run_prop(ctx, rep, "submissions", case_strategy(steps), n, 300, check);
}

pub fn replay(_sub: &str, case: &serde_json::Value) -> Result<CaseInfo, Fail> {
    replay_case::<Case, _>(case, check)
}
