//! C16 – nodes of different clusters never exchange data.
//! Engine E3: the node under test is a full agent (`start_with_config`, real QUIC listener, real uni/bi
//! stream handlers, real broadcast and sync loops) whose cluster id is persisted in `__corro_state`
//! before it starts.  The harness plays its peers with a real `Transport`:
//!   * uni frames (broadcast path) carrying real changesets of foreign actors, declared with generated
//!     cluster ids (same, different, absent = old frame format);
//!   * bi streams (sync path) starting sessions with generated declared cluster ids;
//!   * a generated membership table mixing clusters whose addresses are harness-owned UDP sockets, so
//!     every attempt of the node to contact a member (broadcast target, sync partner) is observed.

use std::{collections::BTreeMap, net::SocketAddr, time::Duration};

use axum::Extension;
use bytes::{Bytes, BytesMut};
use klukai_agent::{
    agent::handle_sync,
    api::{
        peer::{encode_write_bipayload_msg, read_sync_msg},
        public::api_v1_db_schema,
    },
    transport::Transport,
};
use klukai_types::{
    actor::{Actor, ActorId, ClusterId},
    api::Statement,
    broadcast::{BiPayload, BiPayloadV1, BroadcastV1, ChangeV1, UniPayload, UniPayloadV1},
    sync::{SyncMessage, SyncMessageV1, SyncRejectionV1, SyncTraceContextV1},
};
use proptest::prelude::*;
use serde::{Deserialize, Serialize};
use speedy::{Readable, Writable};
use tokio::io::AsyncWriteExt;
use tokio_util::codec::{Encoder, FramedRead, LengthDelimitedCodec};

use crate::{
    common::{CaseInfo, Ctx, Fail, Report, Tier, replay_case, run_prop},
    ensure,
    live::LiveAgent,
    sim::{self, SCHEMA, SimNode, node_config},
};

const CLUSTERS: [u16; 4] = [0, 1, 7, 65535];

#[derive(Debug, Clone, Serialize, Deserialize)]
pub enum Frame {
    /// one complete version of origin `origin` declared with cluster `declared` (None: field absent)
    Uni { origin: u8, version: u8, declared: Option<u8> },
    /// several versions in ONE uni stream, each frame with its own declared cluster (4 = the node's own),
    /// as a broadcaster flushing buffered payloads does
    UniStream { parts: Vec<(u8, u8, Option<u8>)> },
    /// a sync session start declared with cluster `declared`
    Bi { declared: Option<u8> },
}

#[derive(Debug, Clone, Serialize, Deserialize)]
pub struct Case {
    /// index into CLUSTERS of the node under test
    pub own: u8,
    pub frames: Vec<Frame>,
    /// (cluster index, ring0) of the fake members
    pub members: Vec<(u8, bool)>,
    pub local_writes: u8,
    /// before frame #at the node's cluster id is changed to CLUSTERS[to] the way the admin command does
    /// (persisted, then `Agent::set_cluster_id`); connections opened earlier stay open
    #[serde(default)]
    pub switch: Option<(u8, u8)>,
}

pub fn case_strategy() -> impl Strategy<Value = Case> {
    let declared = || prop_oneof![4 => (0u8..4).prop_map(Some), 1 => Just(None)];
    let frame = prop_oneof![
        2 => (0u8..2, 0u8..3, declared()).prop_map(|(origin, version, declared)| Frame::Uni { origin, version, declared }),
        2 => proptest::collection::vec((0u8..2, 0u8..3, prop_oneof![3 => Just(Some(4u8)), 3 => (0u8..4).prop_map(Some), 1 => Just(None)]), 2..5).prop_map(|parts| Frame::UniStream { parts }),
        1 => declared().prop_map(|declared| Frame::Bi { declared }),
    ];
    (0u8..4, proptest::collection::vec(frame, 3..12), proptest::collection::vec((0u8..4, any::<bool>()), 2..7), 1u8..4, proptest::option::weighted(0.4, (0u8..12, 0u8..4)))
        .prop_map(|(own, frames, members, local_writes, switch)| Case { own, frames, members, local_writes, switch })
}

fn cid(i: u8) -> ClusterId {
    ClusterId(CLUSTERS[i as usize % CLUSTERS.len()])
}

fn frame_bytes(payload: Vec<u8>, strip_cluster: bool) -> Result<Bytes, Fail> {
    let mut p = payload;
    if strip_cluster {
        // the cluster id is the trailing u16 of both payload types (`default_on_eof`)
        p.truncate(p.len() - 2);
    }
    let mut codec = LengthDelimitedCodec::builder().max_frame_length(100 * 1_024 * 1_024).new_codec();
    let mut out = BytesMut::new();
    codec.encode(Bytes::from(p), &mut out).map_err(|e| Fail::infra(format!("frame: {e}")))?;
    Ok(out.freeze())
}

pub fn uni_frame(change: &ChangeV1, declared: Option<ClusterId>) -> Result<Bytes, Fail> {
    let payload = UniPayload::V1 { data: UniPayloadV1::Broadcast(BroadcastV1::Change(change.clone())), cluster_id: declared.unwrap_or(ClusterId(0x5a5a)) };
    let raw = payload.write_to_vec().map_err(|e| Fail::infra(format!("encode: {e}")))?;
    if declared.is_none() {
        let stripped = &raw[..raw.len() - 2];
        match UniPayload::read_from_buffer(stripped) {
            Ok(UniPayload::V1 { cluster_id, .. }) if cluster_id == ClusterId(0) => {}
            other => return Err(Fail::infra(format!("a frame without cluster id does not decode to cluster 0: {other:?}"))),
        }
    }
    frame_bytes(raw, declared.is_none())
}

async fn row_count(b: &LiveAgent, sql: &str) -> Result<i64, Fail> {
    let conn = b.agent.pool().client_dedicated_readonly().map_err(|e| Fail::infra(e.to_string()))?;
    conn.query_row(sql, [], |r| r.get(0)).map_err(|e| Fail::infra(format!("{sql}: {e}")))
}

async fn run_case(case: &Case, info: &mut CaseInfo, root: std::path::PathBuf, own: ClusterId) -> Result<(), Fail> {
    let dir = root.join("b");
    let b = LiveAgent::start(&dir, |c| {
        c.perf.min_sync_backoff = 1;
        c.perf.max_sync_backoff = 2;
    })
    .await
    .map_err(|e| Fail::infra(e.0))?;
    ensure!(b.agent.cluster_id() == own, "infra", "node started with cluster {} instead of the persisted {}", b.agent.cluster_id(), own);
    let gossip = b.agent.gossip_addr();
    let (st, body) = api_v1_db_schema(Extension(b.agent.clone()), axum::Json(vec![SCHEMA.to_string()])).await;
    ensure!(st.as_u16() == 200, "infra", "schema: {st} {:?}", body.0);

    // foreign actors with real changes
    let mut origins = vec![];
    for i in 0..3usize {
        let d = root.join(format!("o{i}"));
        origins.push(SimNode::new(10 + i, d).await.map_err(|e| Fail::infra(e.0))?);
    }
    // per origin 3 versions with their own keys (origin 2 is the marker origin)
    let mut versions: BTreeMap<(usize, u64), (i64, Vec<ChangeV1>)> = BTreeMap::new();
    for (oi, o) in origins.iter_mut().enumerate() {
        for v in 1..=3u64 {
            let key = 1000 * (oi as i64 + 1) + v as i64;
            let (st, ver, res) = o.transact(vec![Statement::Simple(format!("INSERT INTO kv (id, a, b) VALUES ({key}, 'from-o{oi}', {v})"))]).await;
            ensure!(st == 200 && ver == Some(v), "infra", "origin write: {st} {ver:?} {res:?}");
            let msgs = o.collect_broadcast(v, None).await.map_err(|e| Fail::infra(e.0))?;
            versions.insert((oi, v), (key, msgs));
        }
    }

    // the harness' own transport (what a peer node would use)
    let (rtt_tx, _rtt_rx) = tokio::sync::mpsc::channel(1024);
    let gconf = node_config(&root.join("h")).gossip;
    let transport = Transport::new(&gconf, rtt_tx).await.map_err(|e| Fail::infra(format!("transport: {e}")))?;

    // --- receive side
    let mut acceptable: BTreeMap<(usize, u64), bool> = BTreeMap::new();
    let mut foreign_unis = 0;
    let mut matching_unis = 0;
    let mut rejections = 0;
    let mut admitted_sessions = 0;
    let mut own = own;
    let mut switched = false;
    for (fi, f) in case.frames.iter().enumerate() {
        info.total_ops += 1;
        if let Some((at, to)) = case.switch {
            if !switched && fi == (at as usize) % case.frames.len() && cid(to) != own {
                // let everything sent so far be processed under the old id first (marker of origin 2, version 2)
                let (mk, mm) = &versions[&(2, 2)];
                for m in mm {
                    transport.send_uni(gossip, uni_frame(m, Some(own))?).await.map_err(|e| Fail::infra(format!("send_uni: {e}")))?;
                }
                let t0 = tokio::time::Instant::now();
                while row_count(&b, &format!("SELECT count(*) FROM kv WHERE id = {mk}")).await? != 1 {
                    ensure!(t0.elapsed() < Duration::from_secs(20), "infra", "marker before the cluster change not applied within 20 s");
                    tokio::time::sleep(Duration::from_millis(20)).await;
                }
                tokio::time::sleep(Duration::from_millis(200)).await;
                let new = cid(to);
                {
                    let conn = b.agent.pool().write_priority().await.map_err(|e| Fail::infra(e.to_string()))?;
                    tokio::task::block_in_place(|| conn.execute("INSERT OR REPLACE INTO __corro_state (key, value) VALUES ('cluster_id', ?)", [new.0])).map_err(|e| Fail::infra(e.to_string()))?;
                }
                b.agent.set_cluster_id(new);
                own = new;
                switched = true;
                info.class("cluster-id-changed-at-run-time");
            }
        }
        match f {
            Frame::Uni { origin, version, declared } => {
                let key = (*origin as usize % 2, 1 + *version as u64 % 3);
                let declared_id = declared.map(cid);
                let effective = declared_id.unwrap_or(ClusterId(0));
                let (_, msgs) = &versions[&key];
                for m in msgs {
                    let bytes = uni_frame(m, declared_id)?;
                    transport.send_uni(gossip, bytes).await.map_err(|e| Fail::infra(format!("send_uni: {e}")))?;
                }
                let e = acceptable.entry(key).or_insert(false);
                if effective == own {
                    *e = true;
                    matching_unis += 1;
                } else {
                    foreign_unis += 1;
                }
            }
            Frame::UniStream { parts } => {
                let mut buf = BytesMut::new();
                for (origin, version, declared) in parts {
                    let key = (*origin as usize % 2, 1 + *version as u64 % 3);
                    let declared_id = declared.map(|d| if d == 4 { own } else { cid(d) });
                    let effective = declared_id.unwrap_or(ClusterId(0));
                    let (_, msgs) = &versions[&key];
                    for m in msgs {
                        buf.extend_from_slice(&uni_frame(m, declared_id)?);
                    }
                    let e = acceptable.entry(key).or_insert(false);
                    if effective == own {
                        *e = true;
                        matching_unis += 1;
                    } else {
                        foreign_unis += 1;
                    }
                }
                info.class("several-frames-in-one-stream");
                transport.send_uni(gossip, buf.freeze()).await.map_err(|e| Fail::infra(format!("send_uni: {e}")))?;
            }
            Frame::Bi { declared } => {
                let declared_id = declared.map(cid);
                let effective = declared_id.unwrap_or(ClusterId(0));
                let (mut tx, rx) = transport.open_bi(gossip).await.map_err(|e| Fail::infra(format!("open_bi: {e}")))?;
                let mut read = FramedRead::new(rx, LengthDelimitedCodec::builder().max_frame_length(100 * 1_024 * 1_024).new_codec());
                let start = BiPayload::V1 { data: BiPayloadV1::SyncStart { actor_id: ActorId(uuid::Uuid::new_v4()), trace_ctx: SyncTraceContextV1::default() }, cluster_id: declared_id.unwrap_or(ClusterId(0x5a5a)) };
                if declared_id.is_some() {
                    let mut codec = LengthDelimitedCodec::builder().max_frame_length(100 * 1_024 * 1_024).new_codec();
                    let mut a = BytesMut::new();
                    let mut s = BytesMut::new();
                    encode_write_bipayload_msg(&mut codec, &mut a, &mut s, start, &mut tx).await.map_err(|e| Fail::infra(format!("write start: {e}")))?;
                } else {
                    let raw = start.write_to_vec().map_err(|e| Fail::infra(e.to_string()))?;
                    match BiPayload::read_from_buffer(&raw[..raw.len() - 2]) {
                        Ok(BiPayload::V1 { cluster_id, .. }) if cluster_id == ClusterId(0) => {}
                        other => return Err(Fail::infra(format!("a start frame without cluster id does not decode to cluster 0: {other:?}"))),
                    }
                    let bytes = frame_bytes(raw, true)?;
                    tx.write_all(&bytes).await.map_err(|e| Fail::infra(format!("write start: {e}")))?;
                }
                let clock = SyncMessage::V1(SyncMessageV1::Clock(b.agent.clock().new_timestamp().into()));
                let bytes = frame_bytes(clock.write_to_vec().map_err(|e| Fail::infra(e.to_string()))?, false)?;
                // a rejecting server may already have closed its side: ignore write errors here
                let _ = tx.write_all(&bytes).await;
                let _ = tx.flush().await;
                let first = tokio::time::timeout(Duration::from_secs(5), read_sync_msg(&mut read)).await;
                let what = format!("frame #{fi}: sync session declared with cluster {declared_id:?} (effective {effective}) to a node of cluster {own}");
                match first {
                    Err(_) => return Err(Fail::infra(format!("{what}: no answer within 5 s"))),
                    Ok(Err(e)) => return Err(Fail::infra(format!("{what}: read error {e}"))),
                    Ok(Ok(msg)) => {
                        let rejected = matches!(msg, Some(SyncMessage::V1(SyncMessageV1::Rejection(SyncRejectionV1::DifferentCluster))));
                        if effective != own {
                            ensure!(rejected, "foreign-sync-session-is-rejected-explicitly", "{what}: first answer was {msg:?}");
                            rejections += 1;
                        } else {
                            ensure!(!rejected, "same-cluster-session-is-not-rejected-as-foreign", "{what}: first answer was {msg:?}");
                            ensure!(matches!(msg, Some(SyncMessage::V1(SyncMessageV1::State(_))) | Some(SyncMessage::V1(SyncMessageV1::Rejection(_)))), "infra", "{what}: unexpected first answer {msg:?}");
                            admitted_sessions += 1;
                        }
                    }
                }
            }
        }
    }
    // marker: a same-cluster broadcast of the third origin sent after everything else; once it is visible the
    // node has had its chance to process what came before (plus a grace period: negative assertion only)
    let (mkey, mmsgs) = &versions[&(2, 1)];
    // after a cluster change the marker travels over a connection of its own: whether the node re-reads its id
    // for connections that were open before the change is the subject, not a precondition of the marker
    let marker_transport = if switched {
        let (rtt_tx2, _rtt_rx2) = tokio::sync::mpsc::channel(1024);
        Transport::new(&gconf, rtt_tx2).await.map_err(|e| Fail::infra(format!("transport: {e}")))?
    } else {
        transport.clone()
    };
    for m in mmsgs {
        marker_transport.send_uni(gossip, uni_frame(m, Some(own))?).await.map_err(|e| Fail::infra(format!("send_uni: {e}")))?;
    }
    let deadline = tokio::time::Instant::now() + Duration::from_secs(20);
    loop {
        if row_count(&b, &format!("SELECT count(*) FROM kv WHERE id = {mkey}")).await? == 1 {
            break;
        }
        ensure!(tokio::time::Instant::now() < deadline, "infra", "the same-cluster marker broadcast was not applied within 20 s");
        tokio::time::sleep(Duration::from_millis(20)).await;
    }
    tokio::time::sleep(Duration::from_millis(200)).await;
    let mut ignored_foreign = 0;
    let mut applied_matching = 0;
    for ((oi, v), (key, _)) in &versions {
        if *oi == 2 {
            continue;
        }
        let present = row_count(&b, &format!("SELECT count(*) FROM kv WHERE id = {key}")).await? == 1;
        let booked = row_count(&b, &format!("SELECT count(*) FROM crsql_changes WHERE site_id = X'{}' AND db_version = {v}", hex(origins[*oi].actor()))).await? > 0;
        match acceptable.get(&(*oi, *v)) {
            Some(true) => {
                if present {
                    applied_matching += 1;
                }
            }
            Some(false) => {
                ensure!(!present && !booked, "change-of-another-cluster-is-never-applied", "v{v} of origin {oi} was only ever sent declared with another cluster than {own}, but the node applied it (row present: {present}, change records: {booked})");
                ignored_foreign += 1;
            }
            None => {
                ensure!(!present && !booked, "infra", "v{v} of origin {oi} was never sent but is present");
            }
        }
    }

    // --- partner selection: a membership table mixing clusters, every address a harness-owned UDP socket
    let mut socks = vec![];
    {
        let ts = b.agent.clock().new_timestamp().into();
        let mut mem = b.agent.members().write();
        for (ci, ring0) in &case.members {
            let sock = std::net::UdpSocket::bind("127.0.0.1:0").map_err(|e| Fail::infra(e.to_string()))?;
            sock.set_nonblocking(true).map_err(|e| Fail::infra(e.to_string()))?;
            let addr: SocketAddr = sock.local_addr().map_err(|e| Fail::infra(e.to_string()))?;
            let id = ActorId(uuid::Uuid::new_v4());
            mem.add_member(&Actor::new(id, addr, ts, cid(*ci)));
            if *ring0 {
                if let Some(s) = mem.states.get_mut(&id) {
                    s.ring = Some(0);
                }
            }
            socks.push((sock, cid(*ci), *ring0, addr));
        }
    }
    for w in 0..case.local_writes {
        let (st, _) = crate::live::http(
            b.api_addr,
            "POST",
            "/v1/transactions",
            &[("content-type".to_string(), "application/json".to_string())],
            Some(serde_json::to_vec(&serde_json::json!([[format!("INSERT INTO kv (id, a, b) VALUES ({}, 'local', {w})", 9000 + w as i64), []]])).unwrap()),
            Duration::from_secs(5),
        )
        .await
        .map(|r| (r.status, r.body))
        .map_err(|e| Fail::infra(e.0))?;
        ensure!(st == 200, "infra", "local write: {st}");
    }
    // an explicit sync round on top of the node's own sync loop
    let sync_task = {
        let agent = b.agent.clone();
        let bookie = b.bookie.clone();
        let transport = b.transport.clone();
        tokio::spawn(async move {
            let _ = handle_sync(&agent, &bookie, &transport).await;
        })
    };
    let mut contacted = vec![false; socks.len()];
    let until = tokio::time::Instant::now() + Duration::from_millis(2500);
    let mut buf = [0u8; 2048];
    while tokio::time::Instant::now() < until {
        for (i, (s, _, _, _)) in socks.iter().enumerate() {
            while let Ok((_n, _from)) = s.recv_from(&mut buf) {
                contacted[i] = true;
            }
        }
        let same: Vec<bool> = socks.iter().zip(&contacted).filter(|((_, c, _, _), _)| *c == own).map(|(_, k)| *k).collect();
        if !same.is_empty() && same.iter().all(|k| *k) && tokio::time::Instant::now() + Duration::from_millis(1500) < until {
            // everything that may be contacted has been; keep listening a little for what must not
            tokio::time::sleep(Duration::from_millis(300)).await;
            for (i, (s, _, _, _)) in socks.iter().enumerate() {
                while let Ok((_n, _from)) = s.recv_from(&mut buf) {
                    contacted[i] = true;
                }
            }
            break;
        }
        tokio::time::sleep(Duration::from_millis(25)).await;
    }
    sync_task.abort();
    let mut same_contacted = 0;
    let mut foreign_members = 0;
    for (i, (_, c, ring0, addr)) in socks.iter().enumerate() {
        if *c != own {
            foreign_members += 1;
            ensure!(!contacted[i], "only-same-cluster-members-are-contacted", "member #{i} at {addr} (cluster {c}, ring0 {ring0}) was contacted by a node of cluster {own} after {} local writes and a sync round", case.local_writes);
        } else if contacted[i] {
            same_contacted += 1;
        }
    }
    if ignored_foreign > 0 {
        info.class("foreign-broadcast-ignored");
    }
    if applied_matching > 0 {
        info.class("matching-broadcast-applied");
    }
    if rejections > 0 {
        info.class("foreign-session-rejected");
    }
    if admitted_sessions > 0 {
        info.class("same-cluster-session-admitted");
    }
    if same_contacted > 0 && foreign_members > 0 {
        info.class("same-cluster-member-contacted-while-foreign-members-listed");
    }
    if case.frames.iter().any(|f| matches!(f, Frame::Uni { declared: None, .. } | Frame::Bi { declared: None })) {
        info.class("frame-without-cluster-id");
    }
    let _ = (foreign_unis, matching_unis);
    info.nontrivial = ignored_foreign > 0 && applied_matching > 0 && same_contacted > 0 && foreign_members > 0;
    b.abandon().await;
    Ok(())
}

fn hex(a: ActorId) -> String {
    a.to_bytes().iter().map(|b| format!("{b:02X}")).collect()
}

pub fn check(case: &Case, info: &mut CaseInfo) -> Result<(), Fail> {
    let root = sim::scratch_root();
    let _ = std::fs::create_dir_all(&root);
    let dir = tempfile::Builder::new().prefix("c16-").tempdir_in(root).map_err(|e| Fail::infra(e.to_string()))?;
    let own = cid(case.own);
    // phase 1: create the database (real migrations), then persist the cluster id the way the admin command does
    {
        let rt = sim::new_runtime(2);
        let d = dir.path().join("b");
        let r = rt.block_on(async { SimNode::with_config_schema(0, d.clone(), node_config(&d), None).await.map(|_| ()) });
        rt.shutdown_timeout(Duration::from_millis(200));
        r.map_err(|e| Fail::infra(e.0))?;
        let conn = rusqlite::Connection::open(d.join("corrosion.db")).map_err(|e| Fail::infra(e.to_string()))?;
        conn.execute("INSERT OR REPLACE INTO __corro_state (key, value) VALUES ('cluster_id', ?)", [own.0]).map_err(|e| Fail::infra(e.to_string()))?;
    }
    let rt = sim::new_runtime(3);
    let r = rt.block_on(run_case(case, info, dir.path().to_path_buf(), own));
    rt.shutdown_timeout(Duration::from_millis(200));
    r
}

pub fn run(ctx: &Ctx, rep: &mut Report) {
    let n = match ctx.tier {
        Tier::Quick => 480,
        Tier::Thorough => 4_000,
    };
    run_prop(ctx, rep, "isolation", case_strategy(), n, 40, check);
}

pub fn replay(_sub: &str, case: &serde_json::Value) -> Result<CaseInfo, Fail> {
    replay_case::<Case, _>(case, check)
}
