//! C17 – the HTTP API enforces its token on every route; read endpoints cannot write.
//! Engine E3: a full agent on loopback; generated requests (route x method x Authorization shape x
//! acting body) and generated statements for the read endpoints; oracle: HTTP status + a digest of the
//! whole database file (user tables, cr-sqlite clock / version tables, corrosion bookkeeping) and the
//! advertised sync state before/after every request.

use std::time::Duration;

use klukai_types::{config::AuthzConfig, sync::generate_sync};
use proptest::prelude::*;
use serde::{Deserialize, Serialize};
use serde_json::json;

use crate::{
    c01::with_world,
    common::{CaseInfo, Ctx, Fail, Report, Tier, replay_case, run_prop},
    ensure,
    live::{LiveAgent, db_digest, http},
};

#[derive(Debug, Clone, Serialize, Deserialize, PartialEq)]
pub enum Route {
    Transactions,
    Queries,
    Subscriptions,
    SubscriptionById,
    Updates,
    Migrations,
    TableStats,
    Unknown,
}

#[derive(Debug, Clone, Serialize, Deserialize, PartialEq)]
pub enum Auth {
    Missing,
    Exact,
    WrongToken,
    Prefix,
    Suffix,
    ExtraChar,
    CaseFlippedToken,
    LowercaseScheme,
    TrailingSpace,
    Basic,
    Empty,
    BearerOnly,
    TokenOnly,
    Duplicated,
    DuplicatedWrongFirst,
}

#[derive(Debug, Clone, Serialize, Deserialize)]
pub struct Req {
    pub route: Route,
    pub wrong_method: bool,
    pub auth: Auth,
    pub tag: u16,
}

#[derive(Debug, Clone, Serialize, Deserialize)]
pub struct AuthzCase {
    pub token: Option<String>,
    pub reqs: Vec<Req>,
}

fn route_strategy() -> impl Strategy<Value = Route> {
    prop_oneof![
        3 => Just(Route::Transactions),
        2 => Just(Route::Queries),
        2 => Just(Route::Subscriptions),
        1 => Just(Route::SubscriptionById),
        1 => Just(Route::Updates),
        3 => Just(Route::Migrations),
        1 => Just(Route::TableStats),
        1 => Just(Route::Unknown),
    ]
}

fn auth_strategy() -> impl Strategy<Value = Auth> {
    prop_oneof![
        Just(Auth::Missing),
        Just(Auth::Exact),
        Just(Auth::WrongToken),
        Just(Auth::Prefix),
        Just(Auth::Suffix),
        Just(Auth::ExtraChar),
        Just(Auth::CaseFlippedToken),
        Just(Auth::LowercaseScheme),
        Just(Auth::TrailingSpace),
        Just(Auth::Basic),
        Just(Auth::Empty),
        Just(Auth::BearerOnly),
        Just(Auth::TokenOnly),
        Just(Auth::Duplicated),
        Just(Auth::DuplicatedWrongFirst),
    ]
}

pub fn authz_strategy() -> impl Strategy<Value = AuthzCase> {
    (
        prop_oneof![3 => "[A-Za-z0-9._~+/-]{8,40}".prop_map(Some), 1 => Just(None)],
        proptest::collection::vec((route_strategy(), prop_oneof![6 => Just(false), 1 => Just(true)], auth_strategy(), any::<u16>()).prop_map(|(route, wrong_method, auth, tag)| Req { route, wrong_method, auth, tag }), 6..24),
    )
        .prop_map(|(token, reqs)| AuthzCase { token, reqs })
}

fn flip_case(s: &str) -> String {
    let mut out = String::new();
    let mut done = false;
    for c in s.chars() {
        if !done && c.is_ascii_alphabetic() {
            out.push(if c.is_ascii_lowercase() { c.to_ascii_uppercase() } else { c.to_ascii_lowercase() });
            done = true;
        } else {
            out.push(c);
        }
    }
    out
}

/// (headers, verdict): verdict Some(true) = carries exactly the token, Some(false) = clearly does not,
/// None = shapes the statement does not decide (scheme case, optional whitespace, repeated header)
fn auth_headers(a: &Auth, token: &str) -> (Vec<(String, String)>, Option<bool>) {
    let h = |v: String| vec![("authorization".to_string(), v)];
    match a {
        Auth::Missing => (vec![], Some(false)),
        Auth::Exact => (h(format!("Bearer {token}")), Some(true)),
        Auth::WrongToken => {
            // same length, first and last character replaced (a token that happens to start with 'x' and end with
            // 'y' would otherwise come out unchanged - seen once in 12 000 cases)
            let w = format!("x{}y", &token[1..token.len() - 1]);
            let same = w == token;
            (h(format!("Bearer {w}")), if same { Some(true) } else { Some(false) })
        }
        Auth::Prefix => (h(format!("Bearer {}", &token[..token.len() - 1])), Some(false)),
        Auth::Suffix => (h(format!("Bearer {}", &token[1..])), Some(false)),
        Auth::ExtraChar => (h(format!("Bearer {token}x")), Some(false)),
        Auth::CaseFlippedToken => {
            let f = flip_case(token);
            let same = f == token;
            (h(format!("Bearer {f}")), if same { Some(true) } else { Some(false) })
        }
        Auth::LowercaseScheme => (h(format!("bearer {token}")), None),
        Auth::TrailingSpace => (h(format!("Bearer {token} ")), None),
        Auth::Basic => (h(format!("Basic {token}")), Some(false)),
        Auth::Empty => (h(String::new()), Some(false)),
        Auth::BearerOnly => (h("Bearer".to_string()), Some(false)),
        Auth::TokenOnly => (h(token.to_string()), Some(false)),
        Auth::Duplicated => (vec![("authorization".to_string(), format!("Bearer {token}")), ("authorization".to_string(), format!("Bearer {token}"))], None),
        Auth::DuplicatedWrongFirst => (vec![("authorization".to_string(), "Bearer nope-nope-nope".to_string()), ("authorization".to_string(), format!("Bearer {token}"))], None),
    }
}

/// a request that *acts* if it is admitted
fn request_for(r: &Req, sub_id: &str, k: usize) -> (String, String, Option<Vec<u8>>) {
    let post = if r.wrong_method { "GET" } else { "POST" };
    let get = if r.wrong_method { "POST" } else { "GET" };
    match r.route {
        Route::Transactions => (post.into(), "/v1/transactions".into(), Some(serde_json::to_vec(&json!([[format!("INSERT INTO kv (id, a, b) VALUES ({}, 'authz{}', {}) ON CONFLICT (id) DO UPDATE SET a = excluded.a", 7000 + k, r.tag, r.tag), []]])).unwrap())),
        Route::Queries => (post.into(), "/v1/queries".into(), Some(serde_json::to_vec(&json!("SELECT id, a FROM kv")).unwrap())),
        Route::Subscriptions => (post.into(), "/v1/subscriptions".into(), Some(serde_json::to_vec(&json!(format!("SELECT id, a FROM kv WHERE b >= {}", r.tag))).unwrap())),
        Route::SubscriptionById => (get.into(), format!("/v1/subscriptions/{sub_id}"), None),
        Route::Updates => (post.into(), "/v1/updates/kv".into(), None),
        Route::Migrations => (post.into(), "/v1/migrations".into(), Some(serde_json::to_vec(&json!([format!("CREATE TABLE authz_t{k} (id INTEGER NOT NULL PRIMARY KEY, v TEXT)")])).unwrap())),
        Route::TableStats => (post.into(), "/v1/table_stats".into(), Some(serde_json::to_vec(&json!({"tables": ["kv"]})).unwrap())),
        Route::Unknown => (post.into(), "/v1/nope".into(), Some(b"{}".to_vec())),
    }
}

fn subs_entries(dir: &std::path::Path) -> Vec<String> {
    let mut v: Vec<String> = std::fs::read_dir(dir.join("subscriptions")).map(|d| d.filter_map(|e| e.ok().map(|e| e.file_name().to_string_lossy().to_string())).collect()).unwrap_or_default();
    v.sort();
    v
}

async fn snapshot(a: &LiveAgent) -> Result<(String, String, Vec<String>), Fail> {
    let d = db_digest(&a.dir.join("corrosion.db")).map_err(|e| Fail::infra(e.0))?;
    let st = generate_sync(&a.bookie, a.agent.actor_id()).await;
    let mut heads: Vec<_> = st.heads.iter().map(|(k, v)| (k.to_string(), v.0)).collect();
    heads.sort();
    Ok((d, format!("{heads:?} need={:?} partial={:?}", st.need.len(), st.partial_need.len()), subs_entries(&a.dir)))
}

async fn run_authz(case: &AuthzCase, info: &mut CaseInfo, root: std::path::PathBuf) -> Result<(), Fail> {
    let t0 = std::time::Instant::now();
    let timing = std::env::var_os("KVERIF_TIMING").is_some();
    let token = case.token.clone();
    let a = LiveAgent::start(&root.join("n0"), |c| {
        c.api.authorization = token.clone().map(AuthzConfig::BearerToken);
    })
    .await
    .map_err(|e| Fail::infra(e.0))?;
    // schema + a subscription to address, installed through the API with the right credentials
    let good: Vec<(String, String)> = match &case.token {
        Some(t) => vec![("authorization".into(), format!("Bearer {t}")), ("content-type".into(), "application/json".into())],
        None => vec![("content-type".into(), "application/json".into())],
    };
    let r = http(a.api_addr, "POST", "/v1/migrations", &good, Some(serde_json::to_vec(&json!([crate::sim::SCHEMA])).unwrap()), Duration::from_secs(5)).await.map_err(|e| Fail::infra(e.0))?;
    ensure!(r.status == 200, "exact-token-is-admitted", "schema with the configured token got {}: {}", r.status, String::from_utf8_lossy(&r.body));
    let sub_id = uuid::Uuid::new_v4().to_string();
    if timing {
        eprintln!("started+schema at {:?}", t0.elapsed());
    }

    for (k, req) in case.reqs.iter().enumerate() {
        info.total_ops += 1;
        let tok = case.token.clone().unwrap_or_else(|| "unconfigured-token-123".to_string());
        let (mut headers, verdict) = auth_headers(&req.auth, &tok);
        headers.push(("content-type".into(), "application/json".into()));
        let (method, path, body) = request_for(req, &sub_id, k);
        let before = snapshot(&a).await?;
        let res = http(a.api_addr, &method, &path, &headers, body, Duration::from_millis(150)).await.map_err(|e| Fail::infra(e.0))?;
        // give a (wrongly) admitted write a moment to commit before looking
        tokio::time::sleep(Duration::from_millis(5)).await;
        let after = snapshot(&a).await?;
        if timing {
            eprintln!("req {k} {method} {path} -> {} at {:?}", res.status, t0.elapsed());
        }
        let what = format!("request #{k} {method} {path} with {:?} (token configured: {})", req.auth, case.token.is_some());
        match (&case.token, verdict) {
            (Some(_), Some(false)) => {
                ensure!((400..500).contains(&res.status), "wrong-credentials-are-rejected", "{what}: status {}", res.status);
                ensure!(before == after, "rejected-request-performs-no-action", "{what}: rejected with {} but the node changed: {before:?} -> {after:?}", res.status);
                if matches!(req.route, Route::Transactions | Route::Migrations | Route::Subscriptions) && !req.wrong_method {
                    info.class("rejected-a-request-that-would-have-acted");
                    info.nontrivial = true;
                }
            }
            (Some(_), Some(true)) => {
                ensure!(res.status != 401, "exact-token-is-admitted", "{what}: status 401");
            }
            (Some(_), None) => {
                if res.status == 401 {
                    ensure!(before == after, "rejected-request-performs-no-action", "{what}: rejected with 401 but the node changed");
                }
                info.class("undecided-header-shape");
            }
            (None, _) => {
                ensure!(res.status != 401, "no-token-means-open", "{what}: status 401 although no token is configured");
            }
        }
    }
    a.abandon().await;
    if timing {
        eprintln!("stopped at {:?}", t0.elapsed());
    }
    Ok(())
}

pub fn check_authz(case: &AuthzCase, info: &mut CaseInfo) -> Result<(), Fail> {
    with_world("c17a-", |root| run_authz(case, info, root))
}

// ------------------------------------------------------------------------------------------------
// read endpoints cannot write

#[derive(Debug, Clone, Serialize, Deserialize)]
pub struct ReadOnlyCase {
    /// (endpoint: false = /v1/queries, true = /v1/subscriptions, statement)
    pub stmts: Vec<(bool, String)>,
}

fn crsql_call() -> impl Strategy<Value = String> {
    prop_oneof![
        Just("crsql_set_db_version(X'00112233445566778899AABBCCDDEEFF', 4242)".to_string()),
        Just("crsql_set_db_version(crsql_site_id(), 99)".to_string()),
        Just("crsql_next_db_version()".to_string()),
        Just("crsql_next_db_version(77)".to_string()),
        Just("crsql_increment_and_get_seq()".to_string()),
        Just("crsql_set_ts('12345')".to_string()),
        Just("crsql_as_crr('kv')".to_string()),
        Just("crsql_as_table('kv')".to_string()),
        Just("crsql_begin_alter('kv')".to_string()),
        Just("crsql_commit_alter('kv')".to_string()),
        Just("crsql_config_set('merge-equal-values', 0)".to_string()),
        Just("crsql_finalize()".to_string()),
        Just("crsql_set_debug(1)".to_string()),
        Just("crsql_peek_next_db_version()".to_string()),
        Just("crsql_db_version()".to_string()),
        Just("crsql_rows_impacted()".to_string()),
        Just("crsql_site_id()".to_string()),
    ]
}

fn read_stmt() -> impl Strategy<Value = String> {
    let t = || prop_oneof![Just("kv"), Just("pair"), Just("big")];
    prop_oneof![
        // DML / DDL / admin
        2 => (0i64..300, any::<u16>()).prop_map(|(k, v)| format!("INSERT INTO kv (id, a, b) VALUES ({k}, 'ro{v}', {v})")),
        1 => any::<u16>().prop_map(|v| format!("UPDATE kv SET b = {v}")),
        1 => Just("DELETE FROM kv".to_string()),
        1 => any::<u16>().prop_map(|v| format!("INSERT INTO kv (id, a, b) VALUES (1, 'r', {v}) RETURNING id")),
        1 => Just("UPDATE kv SET a = 'x' RETURNING id".to_string()),
        1 => t().prop_map(|t| format!("DROP TABLE {t}")),
        1 => Just("CREATE TABLE ro_t (id INTEGER PRIMARY KEY)".to_string()),
        1 => Just("ALTER TABLE kv ADD COLUMN zz TEXT".to_string()),
        1 => Just("CREATE INDEX ro_i ON kv (b)".to_string()),
        1 => prop_oneof![Just("PRAGMA journal_mode = DELETE"), Just("PRAGMA writable_schema = 1"), Just("PRAGMA user_version = 77"), Just("PRAGMA synchronous = OFF"), Just("PRAGMA query_only = 0"), Just("PRAGMA wal_checkpoint(TRUNCATE)"), Just("PRAGMA optimize")].prop_map(|s| s.to_string()),
        1 => Just("ATTACH DATABASE ':memory:' AS other".to_string()),
        1 => Just("ATTACH DATABASE 'file:/dev/shm/kverif-attach-probe.db?mode=rwc' AS other".to_string()),
        1 => Just("VACUUM".to_string()),
        1 => Just("VACUUM INTO '/dev/shm/kverif-vacuum-probe.db'".to_string()),
        1 => Just("BEGIN; DELETE FROM kv; COMMIT".to_string()),
        1 => Just("SELECT 1; DELETE FROM kv".to_string()),
        1 => Just("WITH x AS (SELECT 1) INSERT INTO kv (id, a, b) SELECT 900, 'cte', 1 FROM x".to_string()),
        1 => Just("WITH x AS (SELECT 1) DELETE FROM kv".to_string()),
        1 => Just("REPLACE INTO kv (id, a, b) VALUES (1, 'rep', 1)".to_string()),
        1 => Just("INSERT INTO crsql_changes (\"table\", pk, cid, val, col_version, db_version, site_id, cl, seq, ts) VALUES ('kv', X'010901', 'a', 'forged', 99, 99, X'00112233445566778899AABBCCDDEEFF', 1, 0, '0')".to_string()),
        1 => Just("DELETE FROM __corro_bookkeeping_gaps".to_string()),
        1 => Just("INSERT INTO __corro_bookkeeping_gaps VALUES (X'00112233445566778899AABBCCDDEEFF', 1, 5)".to_string()),
        // SELECTs calling functions with side effects, with and without FROM
        6 => (crsql_call(), prop_oneof![Just(""), Just(" FROM kv"), Just(" FROM kv LIMIT 1"), Just(" FROM pair")]).prop_map(|(f, from)| format!("SELECT {f}{from}")),
        2 => crsql_call().prop_map(|f| format!("SELECT id FROM kv WHERE {f} IS NOT NULL")),
        2 => crsql_call().prop_map(|f| format!("SELECT id, (SELECT {f}) FROM kv")),
        // plain reads (accepted: the interesting class)
        3 => (t(), 0u16..5).prop_map(|(t, n)| format!("SELECT * FROM {t} LIMIT {n}")),
        1 => Just("SELECT id, a FROM kv WHERE b > 3".to_string()),
        1 => Just("SELECT count(*) FROM crsql_changes".to_string()),
    ]
}

pub fn readonly_strategy() -> impl Strategy<Value = ReadOnlyCase> {
    proptest::collection::vec((any::<bool>(), read_stmt()), 8..30).prop_map(|stmts| ReadOnlyCase { stmts })
}

async fn run_readonly(case: &ReadOnlyCase, info: &mut CaseInfo, root: std::path::PathBuf) -> Result<(), Fail> {
    let a = LiveAgent::start(&root.join("n0"), |_| {}).await.map_err(|e| Fail::infra(e.0))?;
    let ct: Vec<(String, String)> = vec![("content-type".into(), "application/json".into())];
    let r = http(a.api_addr, "POST", "/v1/migrations", &ct, Some(serde_json::to_vec(&json!([crate::sim::SCHEMA])).unwrap()), Duration::from_secs(5)).await.map_err(|e| Fail::infra(e.0))?;
    ensure!(r.status == 200, "infra", "schema: {}", r.status);
    let seed = json!([["INSERT INTO kv (id, a, b) VALUES (1, 'one', 1), (2, 'two', 2), (128, 'x', 3)", []], ["INSERT INTO pair (k1, k2, v) VALUES (X'01', 'k', 'v')", []]]);
    let r = http(a.api_addr, "POST", "/v1/transactions", &ct, Some(serde_json::to_vec(&seed).unwrap()), Duration::from_secs(5)).await.map_err(|e| Fail::infra(e.0))?;
    ensure!(r.status == 200, "infra", "seed rows: {} {}", r.status, String::from_utf8_lossy(&r.body));
    // let the local broadcast settle
    tokio::time::sleep(Duration::from_millis(30)).await;

    for (k, (sub, sql)) in case.stmts.iter().enumerate() {
        info.total_ops += 1;
        let path = if *sub { "/v1/subscriptions" } else { "/v1/queries" };
        let before = snapshot(&a).await?;
        let res = http(a.api_addr, "POST", path, &ct, Some(serde_json::to_vec(&json!(sql)).unwrap()), Duration::from_millis(if *sub { 80 } else { 150 })).await.map_err(|e| Fail::infra(e.0))?;
        tokio::time::sleep(Duration::from_millis(10)).await;
        let after = snapshot(&a).await?;
        let what = format!("statement #{k} on {path}: {sql:?} -> status {} {}", res.status, String::from_utf8_lossy(&res.body[..res.body.len().min(160)]));
        ensure!(before.0 == after.0, "read-endpoint-leaves-database-unchanged", "{what}: database digest changed {} -> {}", before.0, after.0);
        ensure!(before.1 == after.1, "read-endpoint-leaves-bookkeeping-unchanged", "{what}: advertised state changed {} -> {}", before.1, after.1);
        if res.status == 200 {
            info.class(if *sub { "accepted-by-subscriptions" } else { "accepted-by-queries" });
            if sql.contains("crsql_") {
                info.class("accepted-statement-calling-an-extension-function");
                info.nontrivial = true;
            }
        } else {
            info.class("rejected-statement");
        }
    }
    let _ = std::fs::remove_file("/dev/shm/kverif-attach-probe.db");
    let _ = std::fs::remove_file("/dev/shm/kverif-vacuum-probe.db");
    a.abandon().await;
    Ok(())
}

pub fn check_readonly(case: &ReadOnlyCase, info: &mut CaseInfo) -> Result<(), Fail> {
    with_world("c17r-", |root| run_readonly(case, info, root))
}

pub fn run(ctx: &Ctx, rep: &mut Report) {
    let (n_a, n_r) = match ctx.tier {
        Tier::Quick => (320, 320),
        Tier::Thorough => (6_000, 6_000),
    };
    run_prop(ctx, rep, "authz", authz_strategy(), n_a, 60, check_authz);
    run_prop(ctx, rep, "read-only", readonly_strategy(), n_r, 60, check_readonly);
}

pub fn replay(sub: &str, case: &serde_json::Value) -> Result<CaseInfo, Fail> {
    if sub.starts_with("authz") { replay_case::<AuthzCase, _>(case, check_authz) } else { replay_case::<ReadOnlyCase, _>(case, check_readonly) }
}
