//! C18 – the membership view follows the newest identity of each peer.
//! Engine E1 (pure): sequences of up/down notifications + RTT samples applied to the real
//! `Members` exactly as `handle_notifications` / the RTT handler do; fold-by-newest-timestamp model.

use std::{
    collections::{BTreeMap, BTreeSet, VecDeque},
    net::SocketAddr,
    time::Duration,
};

use klukai_types::{
    actor::{Actor, ActorId, ClusterId},
    broadcast::Timestamp,
    members::Members,
};
use proptest::prelude::*;
use serde::{Deserialize, Serialize};
use serde_json::json;
use uuid::Uuid;

use crate::{
    common::{CaseInfo, Ctx, Fail, Report, Tier, replay_case, run_prop},
    ensure,
};

#[derive(Debug, Clone, Serialize, Deserialize, PartialEq)]
pub enum Op {
    /// SWIM reports identity (actor, addr, ts, cluster) up
    Up { actor: u8, addr: u8, ts: u8, cluster: u8 },
    /// SWIM silently replaces the active identity at `addr` by a newer one (Notification::Rename,
    /// which the agent only logs) – no call into Members, but later Downs refer to the new identity
    Rename { addr: u8, actor: u8, ts: u8 },
    /// SWIM reports the identity currently active at `addr` down
    Down { addr: u8 },
    /// round-trip sample for an address
    Rtt { addr: u8, ms: u16 },
}

#[derive(Debug, Clone, Serialize, Deserialize)]
pub struct Case {
    pub ops: Vec<Op>,
}

const N_ADDR: u8 = 3;
const N_ACTOR: u8 = 4;
const RTTS: [u16; 12] = [0, 3, 5, 6, 14, 40, 99, 150, 299, 300, 5000, 1];

fn addr(i: u8) -> SocketAddr {
    format!("127.0.0.1:{}", 7001 + i as u16).parse().unwrap()
}
fn actor_id(i: u8) -> ActorId {
    ActorId(Uuid::from_u128(0xA000 + i as u128))
}
fn ts(t: u8) -> Timestamp {
    Timestamp::from(uhlc::NTP64::from(Duration::from_secs(1_000 + t as u64)))
}
fn mk_actor(a: u8, ad: u8, t: u8, c: u8) -> Actor {
    Actor::new(actor_id(a), addr(ad), ts(t), ClusterId(c as u16))
}

pub fn op_strategy() -> impl Strategy<Value = Op> {
    prop_oneof![
        5 => (0..N_ACTOR, 0..N_ADDR, 0u8..8, 0u8..2).prop_map(|(actor, addr, ts, cluster)| Op::Up { actor, addr, ts, cluster }),
        3 => (0..N_ADDR).prop_map(|addr| Op::Down { addr }),
        1 => (0..N_ADDR, 0..N_ACTOR, 0u8..8).prop_map(|(addr, actor, ts)| Op::Rename { addr, actor, ts }),
        5 => (0..N_ADDR, 0usize..RTTS.len()).prop_map(|(addr, i)| Op::Rtt { addr, ms: RTTS[i] }),
    ]
}

pub fn case_strategy() -> impl Strategy<Value = Case> {
    proptest::collection::vec(op_strategy(), 0..40).prop_map(|ops| Case { ops })
}

#[derive(Default, Clone)]
struct ModelActor {
    newest: Option<u8>,
    last_up: bool,
    /// (addr, cluster) of the Ups carrying the newest ts
    ids: BTreeSet<(u8, u8)>,
    max_down: Option<u8>,
}

fn bucket(avg: u64) -> Option<u8> {
    const B: [(u64, u64); 6] = [(0, 6), (6, 15), (15, 50), (50, 100), (100, 200), (200, 300)];
    B.iter().position(|(a, b)| *a <= avg && avg < *b).map(|i| i as u8)
}

pub fn check(case: &Case, info: &mut CaseInfo) -> Result<(), Fail> {
    let mut members = Members::default();
    let mut model: BTreeMap<u8, ModelActor> = BTreeMap::new();
    // SWIM's own view: which identity is active at an address
    let mut swim: BTreeMap<u8, (u8, u8, u8)> = BTreeMap::new();
    let mut rtts: BTreeMap<u8, VecDeque<u64>> = BTreeMap::new();
    let mut saw_addr_change_then_rtt_both = false;
    let mut addr_changed: BTreeMap<u8, (u8, u8)> = BTreeMap::new(); // actor -> (old, new)
    let mut rtt_after_change: BTreeMap<u8, BTreeSet<u8>> = BTreeMap::new();
    let mut down_not_current = false;
    let mut down_newer = false;
    let mut downed: BTreeSet<(u8, u8, u8)> = BTreeSet::new();

    let mut shared_seen = false;
    for (step, op) in case.ops.iter().enumerate() {
        info.total_ops += 1;
        match op {
            Op::Up { actor, addr: ad, ts: t, cluster } => {
                // SWIM never reports an identity up at an address another active identity holds
                // (that is a Rename), nor an identity older than one it already reported down.
                // (foca emits MemberUp only when the active set changes, so never twice for one
                // active identity, and Rename+MemberUp only if the previous holder was already down)
                if swim.contains_key(ad) {
                    info.skipped_ops += 1;
                    continue;
                }
                let m = model.entry(*actor).or_default();
                if m.max_down.is_some_and(|d| *t < d) || downed.contains(&(*actor, *ad, *t)) {
                    // older than a downed identity, or the very identity already declared down
                    // (down is terminal in SWIM; the node must renew its identity)
                    info.skipped_ops += 1;
                    continue;
                }
                // an identity can be active at only one address
                if swim.iter().any(|(a, (ac, tt, _))| a != ad && ac == actor && tt == t) {
                    info.skipped_ops += 1;
                    continue;
                }
                swim.insert(*ad, (*actor, *t, *cluster));
                let prev_listed = members.get(&actor_id(*actor)).map(|s| s.addr);
                members.add_member(&mk_actor(*actor, *ad, *t, *cluster));
                match m.newest {
                    None => {
                        m.newest = Some(*t);
                        m.last_up = true;
                        m.ids = [(*ad, *cluster)].into();
                    }
                    Some(n) if *t > n => {
                        m.newest = Some(*t);
                        m.last_up = true;
                        m.ids = [(*ad, *cluster)].into();
                        if let Some(p) = prev_listed {
                            if p != addr(*ad) {
                                let old = (0..N_ADDR).find(|i| addr(*i) == p).unwrap();
                                addr_changed.insert(*actor, (old, *ad));
                                rtt_after_change.remove(actor);
                            }
                        }
                    }
                    Some(n) if *t == n => {
                        if !m.last_up {
                            m.ids.clear();
                        }
                        m.last_up = true;
                        m.ids.insert((*ad, *cluster));
                    }
                    _ => {}
                }
            }
            Op::Rename { addr: ad, actor, ts: t } => {
                match swim.get(ad) {
                    Some((a0, t0, c0)) if *t > *t0 && !downed.contains(&(*actor, *ad, *t)) && !swim.iter().any(|(a, (ac, tt, _))| a != ad && ac == actor && tt == t) => {
                        let c = *c0;
                        // the replaced identity lost the address conflict for good
                        downed.insert((*a0, *ad, *t0));
                        swim.insert(*ad, (*actor, *t, c));
                    }
                    _ => {
                        info.skipped_ops += 1;
                    }
                }
            }
            Op::Down { addr: ad } => {
                let Some((actor, t, cluster)) = swim.remove(ad) else {
                    info.skipped_ops += 1;
                    continue;
                };
                let m = model.entry(actor).or_default();
                m.max_down = Some(m.max_down.map_or(t, |d| d.max(t)));
                downed.insert((actor, *ad, t));
                members.remove_member(&mk_actor(actor, *ad, t, cluster));
                match m.newest {
                    None => {
                        m.newest = Some(t);
                        m.last_up = false;
                    }
                    Some(n) if t > n => {
                        down_newer = true;
                        m.newest = Some(t);
                        m.last_up = false;
                        m.ids.clear();
                    }
                    Some(n) if t == n => {
                        m.last_up = false;
                    }
                    _ => {
                        down_not_current = true;
                    }
                }
            }
            Op::Rtt { addr: ad, ms } => {
                members.add_rtt(addr(*ad), Duration::from_millis(*ms as u64));
                let q = rtts.entry(*ad).or_default();
                q.push_front(*ms as u64);
                q.truncate(20);
                for (actor, (old, new)) in &addr_changed {
                    if ad == old || ad == new {
                        let e = rtt_after_change.entry(*actor).or_default();
                        e.insert(*ad);
                        if e.contains(old) && e.contains(new) {
                            saw_addr_change_then_rtt_both = true;
                        }
                    }
                }
            }
        }

        // ---- oracle after every step
        for a in 0..N_ACTOR {
            let listed = members.get(&actor_id(a));
            let m = model.get(&a).cloned().unwrap_or_default();
            let should = m.newest.is_some() && m.last_up;
            if should {
                let Some(st) = listed else {
                    return Err(Fail::new("present-iff-newest-up", format!("step {step} {op:?}: actor {a} should be listed (newest identity ts {:?} is up) but is absent", m.newest)));
                };
                let la = (0..N_ADDR).find(|i| addr(*i) == st.addr);
                let ok = la.is_some_and(|la| m.ids.contains(&(la, st.cluster_id.0 as u8)));
                ensure!(
                    ok,
                    "listed-identity-is-newest",
                    "step {step} {op:?}: actor {a} listed with addr {} cluster {} but its newest identity (ts {:?}) was reported with {:?}",
                    st.addr,
                    st.cluster_id,
                    m.newest,
                    m.ids
                );
                ensure!(
                    st.ts == ts(m.newest.unwrap()),
                    "listed-ts-is-newest",
                    "step {step} {op:?}: actor {a} listed with ts {} but newest identity seen is {}",
                    st.ts,
                    ts(m.newest.unwrap())
                );
                // ring: observations for the member's current address determine it
                let la = la.unwrap();
                // the statement is silent about two listed members sharing one address (possible only
                // through SWIM renames the agent does not apply): ring clauses need a unique holder
                // A listed identity that SWIM silently replaced (Rename) no longer lives at that address:
                // RTT samples for the address are observations of its successor, so nothing is demanded.
                let still_there = swim.get(&la).is_some_and(|(ac, tt, _)| *ac == a && ts(*tt) == st.ts);
                if !still_there {
                    shared_seen = true;
                    continue;
                }
                let avg = rtts.get(&la).filter(|q| !q.is_empty()).map(|q| q.iter().sum::<u64>() / q.len() as u64);
                match avg {
                    Some(avg) => match bucket(avg) {
                        Some(b) => {
                            if st.ring != Some(b) {
                                let f = Fail::new(
                                    "ring-from-current-address",
                                    format!("step {step} {op:?}: actor {a} at {} has average rtt {avg} ms (bucket {b}) but ring {:?}", st.addr, st.ring),
                                );
                                return Err(classify_ring(f, &addr_changed, a));
                            }
                        }
                        None => {
                            if st.ring == Some(0) {
                                let f = Fail::new(
                                    "ring0-needs-ring0-average",
                                    format!("step {step} {op:?}: actor {a} at {} has average rtt {avg} ms (outside all rings) but is still ring 0", st.addr),
                                );
                                return Err(f.finding("C18-ring-not-reset-above-buckets"));
                            }
                        }
                    },
                    None => {
                        if st.ring == Some(0) {
                            let f = Fail::new(
                                "ring0-needs-ring0-average",
                                format!("step {step} {op:?}: actor {a} at {} has no rtt sample for its current address but is ring 0", st.addr),
                            );
                            return Err(classify_ring(f, &addr_changed, a));
                        }
                    }
                }
            } else if let Some(st) = listed {
                let f = Fail::new(
                    "present-iff-newest-up",
                    format!(
                        "step {step} {op:?}: actor {a} is listed (addr {}, ts {}) but the last notification about its newest identity (ts {:?}) was a down",
                        st.addr, st.ts, m.newest
                    ),
                );
                return Err(if down_newer { f.finding("C18-down-of-newer-identity-ignored") } else { f });
            }
        }
        // priority targets: a listed member whose identity is still active at its address is a ring-0
        // target of its cluster exactly if that address averages below 6 ms, and of no other cluster
        for c in 0u8..2 {
            let got: BTreeSet<SocketAddr> = members.ring0(ClusterId(c as u16)).collect();
            for a in 0..N_ACTOR {
                if let Some(st) = members.get(&actor_id(a)) {
                    let la = (0..N_ADDR).find(|i| addr(*i) == st.addr).unwrap();
                    let still_there = swim.get(&la).is_some_and(|(ac, tt, _)| *ac == a && ts(*tt) == st.ts);
                    let shared = members.states.values().filter(|o| o.addr == st.addr).count() > 1;
                    if !still_there || shared {
                        continue;
                    }
                    let avg = rtts.get(&la).filter(|q| !q.is_empty()).map(|q| q.iter().sum::<u64>() / q.len() as u64);
                    let want = st.cluster_id.0 as u8 == c && avg.is_some_and(|v| v < 6);
                    ensure!(
                        got.contains(&st.addr) == want,
                        "ring0-targets",
                        "step {step} {op:?}: actor {a} ({}, cluster {}, avg {avg:?}) in ring0(cluster {c}) = {}, expected {want}",
                        st.addr,
                        st.cluster_id,
                        got.contains(&st.addr)
                    );
                }
            }
        }
    }
    if saw_addr_change_then_rtt_both {
        info.class("addr-change-then-rtt-for-both-addresses");
    }
    if down_not_current {
        info.class("down-for-older-identity");
    }
    if shared_seen {
        info.class("listed-identity-replaced-by-rename(ring-clauses-skipped)");
    }
    if down_newer {
        info.class("down-for-newer-identity-after-rename");
    }
    info.nontrivial = saw_addr_change_then_rtt_both || down_not_current || down_newer;
    Ok(())
}

fn classify_ring(f: Fail, addr_changed: &BTreeMap<u8, (u8, u8)>, a: u8) -> Fail {
    if addr_changed.contains_key(&a) { f.finding("C18-address-change-keeps-stale-ring") } else { f }
}

fn sweep(ctx: &Ctx, rep: &mut Report) {
    // one actor, <=5 ops, ts in 0..3, 2 addresses, 1 cluster, rtt in {3, 300}
    let mut alphabet = vec![];
    for t in 0..3u8 {
        for ad in 0..2u8 {
            alphabet.push(Op::Up { actor: 0, addr: ad, ts: t, cluster: 0 });
        }
    }
    for ad in 0..2u8 {
        alphabet.push(Op::Down { addr: ad });
        alphabet.push(Op::Rtt { addr: ad, ms: 3 });
        alphabet.push(Op::Rtt { addr: ad, ms: 300 });
    }
    for t in 1..3u8 {
        alphabet.push(Op::Rename { addr: 0, actor: 0, ts: t });
    }
    let k = alphabet.len();
    let mut n = 0u64;
    for len in 0..=5usize {
        let total = (k as u64).pow(len as u32);
        for mut code in 0..total {
            let mut ops = Vec::with_capacity(len);
            for _ in 0..len {
                ops.push(alphabet[(code % k as u64) as usize].clone());
                code /= k as u64;
            }
            let case = Case { ops };
            crate::common::eval_enumerated(ctx, rep, "sweep", &case, check);
            n += 1;
        }
    }
    rep.sub.insert("sweep".into(), json!({"cases": n, "exhaustive": true, "scope": format!("1 actor, <=5 ops over an alphabet of {k} (ts 0..3, 2 addresses, rtt 3/300, renames)")}));
}

pub fn run(ctx: &Ctx, rep: &mut Report) {
    if ctx.worker == 0 && ctx.wants("sweep") {
        sweep(ctx, rep);
    }
    let n = match ctx.tier {
        Tier::Quick => 300_000,
        Tier::Thorough => 10_000_000,
    };
    run_prop(ctx, rep, "seq", case_strategy(), n, 8000, check);
    run_prop(ctx, rep, "arbitrary", crate::c18b::acase_strategy(), n, 8000, crate::c18b::check);
}

pub fn replay(sub: &str, case: &serde_json::Value) -> Result<CaseInfo, Fail> {
    if sub.starts_with("arbitrary") {
        replay_case::<crate::c18b::ACase, _>(case, crate::c18b::check)
    } else {
        replay_case::<Case, _>(case, check)
    }
}
