//! C18, second sub-campaign: *arbitrary* up/down notification sequences, as the property's
//! quantifier words it ("an actor's 'up' never carries an identity older than one already reported
//! down; otherwise arbitrary, also equal and out-of-order identity timestamps, address changes and
//! cluster ids"), i.e. without modelling what SWIM would really emit.  Ring clauses are restricted
//! to addresses that were never listed for two different members at the same time (the statement is
//! silent about address sharing).

use std::{
    collections::{BTreeMap, BTreeSet, VecDeque},
    net::SocketAddr,
    time::Duration,
};

use klukai_types::{
    actor::{Actor, ActorId, ClusterId},
    broadcast::Timestamp,
    members::Members,
};
use proptest::prelude::*;
use serde::{Deserialize, Serialize};
use uuid::Uuid;

use crate::{
    common::{CaseInfo, Fail},
    ensure,
};

#[derive(Debug, Clone, Serialize, Deserialize, PartialEq)]
pub enum AOp {
    Up { actor: u8, addr: u8, ts: u8, cluster: u8 },
    Down { actor: u8, addr: u8, ts: u8, cluster: u8 },
    Rtt { addr: u8, ms: u16 },
}

#[derive(Debug, Clone, Serialize, Deserialize)]
pub struct ACase {
    pub ops: Vec<AOp>,
}

const N_ADDR: u8 = 3;
const N_ACTOR: u8 = 3;
const RTTS: [u16; 10] = [0, 3, 5, 6, 14, 40, 99, 299, 300, 5000];

fn addr(i: u8) -> SocketAddr {
    format!("127.0.0.1:{}", 7101 + i as u16).parse().unwrap()
}
fn actor_id(i: u8) -> ActorId {
    ActorId(Uuid::from_u128(0xB000 + i as u128))
}
fn ts(t: u8) -> Timestamp {
    Timestamp::from(uhlc::NTP64::from(Duration::from_secs(2_000 + t as u64)))
}
fn mk(a: u8, ad: u8, t: u8, c: u8) -> Actor {
    Actor::new(actor_id(a), addr(ad), ts(t), ClusterId(c as u16))
}

pub fn aop_strategy() -> impl Strategy<Value = AOp> {
    prop_oneof![
        5 => (0..N_ACTOR, 0..N_ADDR, 0u8..6, 0u8..2).prop_map(|(actor, addr, ts, cluster)| AOp::Up { actor, addr, ts, cluster }),
        3 => (0..N_ACTOR, 0..N_ADDR, 0u8..6, 0u8..2).prop_map(|(actor, addr, ts, cluster)| AOp::Down { actor, addr, ts, cluster }),
        5 => (0..N_ADDR, 0usize..RTTS.len()).prop_map(|(addr, i)| AOp::Rtt { addr, ms: RTTS[i] }),
    ]
}

pub fn acase_strategy() -> impl Strategy<Value = ACase> {
    proptest::collection::vec(aop_strategy(), 0..30).prop_map(|ops| ACase { ops })
}

fn bucket(avg: u64) -> Option<u8> {
    const B: [(u64, u64); 6] = [(0, 6), (6, 15), (15, 50), (50, 100), (100, 200), (200, 300)];
    B.iter().position(|(a, b)| *a <= avg && avg < *b).map(|i| i as u8)
}

#[derive(Default, Clone)]
struct M {
    newest: Option<u8>,
    /// identities (addr, cluster) carrying the newest ts -> was the last notification about it an up?
    ids: BTreeMap<(u8, u8), bool>,
    max_down: Option<u8>,
}

pub fn check(case: &ACase, info: &mut CaseInfo) -> Result<(), Fail> {
    let mut members = Members::default();
    let mut model: BTreeMap<u8, M> = BTreeMap::new();
    let mut rtts: BTreeMap<u8, VecDeque<u64>> = BTreeMap::new();
    let mut tainted: BTreeSet<u8> = BTreeSet::new();
    let mut stale_down = false;
    let mut renewed_same_addr = false;
    let mut moved = false;

    for (step, op) in case.ops.iter().enumerate() {
        info.total_ops += 1;
        match op {
            AOp::Up { actor, addr: ad, ts: t, cluster } => {
                let m = model.entry(*actor).or_default();
                if m.max_down.is_some_and(|d| *t < d) {
                    info.skipped_ops += 1;
                    continue;
                }
                if let Some(st) = members.get(&actor_id(*actor)) {
                    if st.ts < ts(*t) {
                        if st.addr == addr(*ad) {
                            renewed_same_addr = true;
                        } else {
                            moved = true;
                        }
                    }
                }
                members.add_member(&mk(*actor, *ad, *t, *cluster));
                match m.newest {
                    Some(n) if *t < n => {}
                    Some(n) if *t == n => {
                        m.ids.insert((*ad, *cluster), true);
                    }
                    _ => {
                        m.newest = Some(*t);
                        m.ids = [((*ad, *cluster), true)].into();
                    }
                }
            }
            AOp::Down { actor, addr: ad, ts: t, cluster } => {
                let m = model.entry(*actor).or_default();
                m.max_down = Some(m.max_down.map_or(*t, |d| d.max(*t)));
                members.remove_member(&mk(*actor, *ad, *t, *cluster));
                match m.newest {
                    Some(n) if *t < n => stale_down = true,
                    Some(n) if *t == n => {
                        m.ids.insert((*ad, *cluster), false);
                    }
                    _ => {
                        m.newest = Some(*t);
                        m.ids = [((*ad, *cluster), false)].into();
                    }
                }
            }
            AOp::Rtt { addr: ad, ms } => {
                members.add_rtt(addr(*ad), Duration::from_millis(*ms as u64));
                let q = rtts.entry(*ad).or_default();
                q.push_front(*ms as u64);
                q.truncate(20);
            }
        }
        // addresses listed for two members at once are out of scope for the ring clauses, for good
        for ad in 0..N_ADDR {
            if members.states.values().filter(|s| s.addr == addr(ad)).count() > 1 {
                tainted.insert(ad);
            }
        }
        for a in 0..N_ACTOR {
            let listed = members.get(&actor_id(a));
            let m = model.get(&a).cloned().unwrap_or_default();
            let any_up = m.ids.values().any(|u| *u);
            let all_up = !m.ids.is_empty() && m.ids.values().all(|u| *u);
            if let Some(st) = listed {
                ensure!(any_up, "present-iff-newest-up", "step {step} {op:?}: actor {a} is listed (ts {}) but every identity with its newest timestamp {:?} was last reported down", st.ts, m.newest);
                ensure!(st.ts == ts(m.newest.unwrap()), "listed-ts-is-newest", "step {step} {op:?}: actor {a} listed with ts {} but the newest identity seen is {}", st.ts, ts(m.newest.unwrap()));
                let la = (0..N_ADDR).find(|i| addr(*i) == st.addr).unwrap();
                ensure!(
                    m.ids.get(&(la, st.cluster_id.0 as u8)) == Some(&true),
                    "listed-identity-is-newest",
                    "step {step} {op:?}: actor {a} listed at {} cluster {} which is not an up identity of its newest timestamp: {:?}",
                    st.addr,
                    st.cluster_id,
                    m.ids
                );
                if !tainted.contains(&la) {
                    let avg = rtts.get(&la).filter(|q| !q.is_empty()).map(|q| q.iter().sum::<u64>() / q.len() as u64);
                    let want = avg.and_then(bucket);
                    ensure!(
                        st.ring == want,
                        "ring-from-current-address",
                        "step {step} {op:?}: actor {a} at {} has rtt average {avg:?} (ring {want:?}) but ring {:?}",
                        st.addr,
                        st.ring
                    );
                    for c in 0u8..2 {
                        let in0 = members.ring0(ClusterId(c as u16)).any(|x| x == st.addr);
                        let should = st.cluster_id.0 as u8 == c && want == Some(0);
                        ensure!(in0 == should, "ring0-targets", "step {step} {op:?}: actor {a} ({}) in ring0(cluster {c}) = {in0}, expected {should}", st.addr);
                    }
                }
            } else {
                ensure!(!all_up, "present-iff-newest-up", "step {step} {op:?}: actor {a} is absent but every identity with its newest timestamp {:?} was last reported up: {:?}", m.newest, m.ids);
            }
        }
    }
    if stale_down {
        info.class("down-for-older-identity");
    }
    if renewed_same_addr {
        info.class("identity-renewed-on-same-address");
    }
    if moved {
        info.class("address-change");
    }
    if !tainted.is_empty() {
        info.class("address-shared-by-two-members(ring-clauses-off-for-it)");
    }
    info.nontrivial = stale_down && (renewed_same_addr || moved);
    Ok(())
}
