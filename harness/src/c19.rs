//! C19 – backup and restore reproduce the replicated data with correct authorship.
//! Sub-campaign "backup": a real source node with generated local and remote history (three authors,
//! deletes, key moves), the real `corrosion backup` and `corrosion restore` commands (the binary built
//! from /repo's working tree) onto an absent destination or over the database of another real node,
//! with and without keeping the destination's actor id; a real node is then started on the result.
//! Oracle: the complete `crsql_changes` relation (with author site ids) and the user tables of source vs
//! restored node, the restored node's identity and advertised heads, the absence of node-local state.
//! Sub-campaign "live-restore": `sqlite3_restore::restore` over a live WAL database with readers in
//! OTHER PROCESSES (file locks are per process): every read that succeeds is entirely old or entirely new.

use std::{collections::BTreeMap, path::Path, time::Duration};

use klukai_types::{actor::ActorId, api::Statement, broadcast::ChangeSource, sync::generate_sync};
use proptest::prelude::*;
use serde::{Deserialize, Serialize};

use crate::{
    c01::with_world,
    c11::{SUB_SCHEMA, Tx, sop_sql, tx_strategy},
    common::{CaseInfo, Ctx, Fail, Report, Tier, replay_case, run_prop},
    ensure,
    sim::{SimNode, node_config},
};

pub fn corrosion_bin() -> std::path::PathBuf {
    std::env::var_os("KVERIF_CORROSION_BIN").map(Into::into).unwrap_or_else(|| "/verif/harness/target/repo-bin/debug/corrosion".into())
}

#[derive(Debug, Clone, Serialize, Deserialize)]
pub enum Dest {
    Absent,
    /// another node's database, with its own history
    Existing { hist: Vec<Tx> },
}

#[derive(Debug, Clone, Serialize, Deserialize)]
pub enum Keep {
    No,
    SelfActorId,
    Explicit,
}

#[derive(Debug, Clone, Serialize, Deserialize)]
pub struct BackupCase {
    pub hist: Vec<Tx>,
    pub dest: Dest,
    pub keep: Keep,
    /// back up a copy of the source converted to rollback-journal mode instead of the live WAL database
    pub rollback_journal: bool,
}

pub fn backup_strategy() -> impl Strategy<Value = BackupCase> {
    let dest = prop_oneof![1 => Just(Dest::Absent), 2 => proptest::collection::vec(tx_strategy(), 1..8).prop_map(|hist| Dest::Existing { hist })];
    (proptest::collection::vec(tx_strategy(), 3..20), dest, prop_oneof![Just(Keep::No), Just(Keep::SelfActorId), Just(Keep::Explicit)], any::<bool>()).prop_map(|(hist, dest, keep, rollback_journal)| BackupCase { hist, dest, keep, rollback_journal })
}

fn dump_changes(conn: &rusqlite::Connection) -> rusqlite::Result<Vec<String>> {
    conn.prepare("SELECT \"table\", hex(pk), cid, quote(val), col_version, db_version, hex(site_id), cl, seq FROM crsql_changes ORDER BY 1, 2, 3, 7, 6, 9")?
        .query_map([], |r| {
            Ok(format!(
                "{}|{}|{}|{}|cv{}|dbv{}|site {}|cl{}|s{}",
                r.get::<_, String>(0)?,
                r.get::<_, String>(1)?,
                r.get::<_, String>(2)?,
                r.get::<_, String>(3)?,
                r.get::<_, i64>(4)?,
                r.get::<_, i64>(5)?,
                r.get::<_, String>(6)?,
                r.get::<_, i64>(7)?,
                r.get::<_, i64>(8)?
            ))
        })?
        .collect()
}

fn dump_tables(conn: &rusqlite::Connection) -> rusqlite::Result<Vec<String>> {
    let mut out = vec![];
    for (t, order) in [("svc", "id"), ("inst", "svc_id, node"), ("meta", "k")] {
        let mut st = conn.prepare(&format!("SELECT * FROM {t} ORDER BY {order}"))?;
        let n = st.column_count();
        let mut q = st.query([])?;
        while let Some(r) = q.next()? {
            let mut s = format!("{t}:");
            for i in 0..n {
                let v: rusqlite::types::Value = r.get(i)?;
                s.push_str(&format!("{v:?},"));
            }
            out.push(s);
        }
    }
    Ok(out)
}

fn run_cli(args: &[String]) -> Result<(bool, String), Fail> {
    let bin = corrosion_bin();
    if !bin.exists() {
        return Err(Fail::infra(format!("{} is missing (built by ./check from /repo)", bin.display())));
    }
    let out = tokio::task::block_in_place(|| std::process::Command::new(&bin).args(args).env("RUST_LOG", "info").output()).map_err(|e| Fail::infra(format!("spawn corrosion: {e}")))?;
    Ok((out.status.success(), format!("{}{}", String::from_utf8_lossy(&out.stdout), String::from_utf8_lossy(&out.stderr))))
}

fn hexid(a: ActorId) -> String {
    a.to_bytes().iter().map(|b| format!("{b:02X}")).collect()
}

async fn apply_hist(target: &SimNode, origins: &mut [SimNode], hist: &[Tx], info: &mut CaseInfo) -> Result<usize, Fail> {
    let mut remote = 0;
    for tx in hist {
        info.total_ops += 1;
        let stmts: Vec<Statement> = tx.ops.iter().map(|o| Statement::Simple(sop_sql(o))).collect();
        if tx.origin == 0 || origins.is_empty() {
            let (st, _, res) = target.transact(stmts).await;
            ensure!(st == 200, "infra", "local transaction: {st} {res:?}");
        } else {
            let oi = (tx.origin as usize - 1) % origins.len();
            let (st, ver, res) = origins[oi].transact(stmts).await;
            ensure!(st == 200, "infra", "origin transaction: {st} {res:?}");
            if let Some(v) = ver {
                let msgs = origins[oi].collect_broadcast(v, None).await.map_err(|e| Fail::infra(e.0))?;
                target.deliver(msgs, ChangeSource::Broadcast).await.map_err(|e| Fail::infra(e.0))?;
                remote += 1;
            }
        }
    }
    Ok(remote)
}

async fn run_backup(case: &BackupCase, info: &mut CaseInfo, root: std::path::PathBuf) -> Result<(), Fail> {
    let sdir = root.join("s");
    let s = SimNode::with_config_schema(0, sdir.clone(), node_config(&sdir), Some(SUB_SCHEMA)).await.map_err(|e| Fail::infra(e.0))?;
    let mut origins = vec![];
    for i in 0..2usize {
        let d = root.join(format!("o{i}"));
        origins.push(SimNode::with_config_schema(10 + i, d.clone(), node_config(&d), Some(SUB_SCHEMA)).await.map_err(|e| Fail::infra(e.0))?);
    }
    let remote = apply_hist(&s, &mut origins, &case.hist, info).await?;
    // node-local state that must not travel
    {
        let conn = s.agent.pool().write_priority().await.map_err(|e| Fail::infra(e.to_string()))?;
        tokio::task::block_in_place(|| conn.execute("INSERT OR REPLACE INTO __corro_members (actor_id, address, foca_state) VALUES (X'00112233445566778899AABBCCDDEEFF', '127.0.0.1:1', '{}')", [])).map_err(|e| Fail::infra(format!("members row: {e}")))?;
    }
    let (src_changes, src_tables) = {
        let conn = s.agent.pool().client_dedicated_readonly().map_err(|e| Fail::infra(e.to_string()))?;
        (dump_changes(&conn).map_err(|e| Fail::infra(e.to_string()))?, dump_tables(&conn).map_err(|e| Fail::infra(e.to_string()))?)
    };
    let authors: std::collections::BTreeSet<String> = src_changes.iter().filter_map(|l| l.split("|site ").nth(1).map(|x| x.split('|').next().unwrap_or("").to_string())).collect();

    // what is backed up: the live database, or a copy switched to rollback-journal mode
    let src_db = if case.rollback_journal {
        let x = root.join("sx");
        s.crash_image(&x).map_err(|e| Fail::infra(e.0))?;
        let conn = rusqlite::Connection::open(x.join("corrosion.db")).map_err(|e| Fail::infra(e.to_string()))?;
        let mode: String = conn.query_row("PRAGMA journal_mode = DELETE", [], |r| r.get(0)).map_err(|e| Fail::infra(e.to_string()))?;
        ensure!(mode == "delete", "infra", "journal mode is {mode}");
        x.join("corrosion.db")
    } else {
        sdir.join("corrosion.db")
    };
    let bk = root.join("backup").join("corrosion.db");
    // (the command creates the parent directory only after VACUUM INTO needed it)
    std::fs::create_dir_all(root.join("backup")).map_err(|e| Fail::infra(e.to_string()))?;
    let (ok, out) = run_cli(&["backup".into(), bk.display().to_string(), "--db-path".into(), src_db.display().to_string()])?;
    ensure!(ok, "backup-succeeds", "corrosion backup failed: {}", out.chars().rev().take(600).collect::<String>().chars().rev().collect::<String>());

    // destination
    let ddir = root.join("d");
    std::fs::create_dir_all(ddir.join("subscriptions").join("deadbeef")).map_err(|e| Fail::infra(e.to_string()))?;
    std::fs::write(ddir.join("subscriptions").join("deadbeef").join("sub.sqlite"), b"stale").map_err(|e| Fail::infra(e.to_string()))?;
    let mut d_actor = None;
    let mut keep = case.keep.clone();
    match &case.dest {
        Dest::Absent => {
            if matches!(keep, Keep::SelfActorId) {
                // needs an existing database to read the id from
                keep = Keep::Explicit;
            }
        }
        Dest::Existing { hist } => {
            let tmp = root.join("dlive");
            let d = SimNode::with_config_schema(1, tmp.clone(), node_config(&tmp), Some(SUB_SCHEMA)).await.map_err(|e| Fail::infra(e.0))?;
            apply_hist(&d, &mut [], hist, info).await?;
            d_actor = Some(d.actor());
            d.crash_image(&ddir).map_err(|e| Fail::infra(e.0))?;
            // make the stopped node's files self-contained (no -wal left behind by the copy)
            let conn = rusqlite::Connection::open(ddir.join("corrosion.db")).map_err(|e| Fail::infra(e.to_string()))?;
            let _ = conn.execute_batch("PRAGMA wal_checkpoint(TRUNCATE)");
        }
    }
    let explicit = ActorId(uuid::Uuid::new_v4());
    let cfg = root.join("d.toml");
    std::fs::write(
        &cfg,
        format!("[db]\npath = \"{}\"\n\n[gossip]\naddr = \"127.0.0.1:0\"\nplaintext = true\n\n[api]\naddr = \"127.0.0.1:0\"\n\n[admin]\npath = \"{}\"\n", ddir.join("corrosion.db").display(), ddir.join("admin.sock").display()),
    )
    .map_err(|e| Fail::infra(e.to_string()))?;
    let mut args: Vec<String> = vec!["restore".into(), bk.display().to_string(), "-c".into(), cfg.display().to_string()];
    match keep {
        Keep::No => {}
        Keep::SelfActorId => args.push("--self-actor-id".into()),
        Keep::Explicit => {
            args.push("--actor-id".into());
            args.push(explicit.to_string());
        }
    }
    let (ok, out) = run_cli(&args)?;
    ensure!(ok, "restore-succeeds", "corrosion {args:?} failed: {}", out.chars().rev().take(800).collect::<String>().chars().rev().collect::<String>());

    // a real node starts on the restored database
    let r = SimNode::reopen_schema(2, ddir.clone(), None).await.map_err(|e| Fail::new("node-starts-on-restored-database", format!("setup() on the restored database failed: {}", e.0)))?;
    let (got_changes, got_tables, members) = {
        let conn = r.agent.pool().client_dedicated_readonly().map_err(|e| Fail::infra(e.to_string()))?;
        let members: i64 = conn.query_row("SELECT count(*) FROM __corro_members", [], |r| r.get(0)).map_err(|e| Fail::infra(e.to_string()))?;
        (dump_changes(&conn).map_err(|e| Fail::infra(e.to_string()))?, dump_tables(&conn).map_err(|e| Fail::infra(e.to_string()))?, members)
    };
    let what = format!("restore ({:?}, destination {}, source {} journal)", keep, if d_actor.is_some() { "existing node" } else { "absent" }, if case.rollback_journal { "rollback" } else { "WAL (live)" });
    ensure!(got_tables == src_tables, "restored-rows-equal-source", "{what}: tables differ\n source: {src_tables:?}\n restored: {got_tables:?}");
    if got_changes != src_changes {
        let missing: Vec<&String> = src_changes.iter().filter(|l| !got_changes.contains(l)).take(6).collect();
        let extra: Vec<&String> = got_changes.iter().filter(|l| !src_changes.contains(l)).take(6).collect();
        return Err(Fail::new("restored-changes-keep-their-authors", format!("{what}: crsql_changes differs; source actor {}; only in source: {missing:?}; only in restored: {extra:?}", hexid(s.actor()))));
    }
    ensure!(members == 0, "no-node-local-state-travels", "{what}: __corro_members has {members} rows after restore");
    ensure!(!ddir.join("subscriptions").join("deadbeef").exists(), "no-node-local-state-travels", "{what}: the destination's subscriptions were not removed");
    let expect_actor = match keep {
        Keep::No => None,
        Keep::SelfActorId => d_actor,
        Keep::Explicit => Some(explicit),
    };
    match expect_actor {
        Some(a) => ensure!(r.actor() == a, "restored-node-identity", "{what}: the node started as {} instead of {a}", r.actor()),
        None => ensure!(r.actor() != s.actor(), "restored-node-identity", "{what}: the restored node runs under the source's actor id {}", s.actor()),
    }
    // the node's own view of who authored what
    let state = generate_sync(&r.bookie, r.actor()).await;
    let mut max_by_author: BTreeMap<String, u64> = BTreeMap::new();
    for l in &src_changes {
        let site = l.split("|site ").nth(1).and_then(|x| x.split('|').next()).unwrap_or("").to_string();
        let dbv: u64 = l.split("|dbv").nth(1).and_then(|x| x.split('|').next()).and_then(|x| x.parse().ok()).unwrap_or(0);
        let e = max_by_author.entry(site).or_default();
        *e = (*e).max(dbv);
    }
    for (a, v) in &state.heads {
        if *a == r.actor() && !max_by_author.contains_key(&hexid(*a)) {
            continue;
        }
        let want = max_by_author.get(&hexid(*a)).cloned().unwrap_or(0);
        ensure!(v.0 >= want, "restored-node-advertises-every-author", "{what}: head of {a} is {} after restore, the source holds changes of it up to {want}", v.0);
    }
    for (site, want) in &max_by_author {
        let known = state.heads.iter().any(|(a, v)| hexid(*a) == *site && v.0 >= *want);
        ensure!(known, "restored-node-advertises-every-author", "{what}: author {site} (changes up to version {want} in the source) is not advertised by the restored node: {:?}", state.heads);
    }
    if authors.len() >= 3 {
        info.class("three-authors");
    }
    if remote > 0 {
        info.class("remote-changes-in-source");
    }
    info.class(match keep {
        Keep::No => "fresh-identity",
        Keep::SelfActorId => "kept-destination-identity",
        Keep::Explicit => "explicit-identity",
    });
    if d_actor.is_some() {
        info.class("over-existing-node");
    }
    info.nontrivial = authors.len() >= 2 && !src_changes.is_empty();
    Ok(())
}

pub fn check_backup(case: &BackupCase, info: &mut CaseInfo) -> Result<(), Fail> {
    with_world("c19b-", |root| run_backup(case, info, root))
}

// ------------------------------------------------------------------------------------------------
// live restore with readers in other processes

#[derive(Debug, Clone, Serialize, Deserialize)]
pub struct LiveCase {
    pub old_rows: u16,
    pub new_rows: u16,
    pub pad: u16,
    pub readers: u8,
    pub reader_pause_us: u16,
    /// rows written to the destination after the readers attached and never checkpointed
    pub wal_rows: u16,
    pub lead_ms: u8,
    /// page cache of the readers (0: SQLite's default); a small cache holds only part of the old database
    /// when the restore happens
    #[serde(default)]
    pub reader_cache_pages: u16,
}

pub const KF_STALE_CACHE: &str = "C19-restore-idle-wal-second-reader-keeps-stale-pages";

pub fn live_strategy() -> impl Strategy<Value = LiveCase> {
    (1u16..3000, 1u16..3000, 0u16..600, 1u8..5, 0u16..2000, prop_oneof![1 => Just(0u16), 1 => 1u16..500], 0u8..30, prop_oneof![1 => Just(0u16), 2 => 2u16..64])
        .prop_map(|(old_rows, new_rows, pad, readers, reader_pause_us, wal_rows, lead_ms, reader_cache_pages)| LiveCase { old_rows, new_rows, pad, readers, reader_pause_us, wal_rows, lead_ms, reader_cache_pages })
}

fn make_db(path: &Path, rows: u32, tag: &str, pad: usize) -> rusqlite::Result<()> {
    let conn = rusqlite::Connection::open(path)?;
    conn.execute_batch("PRAGMA journal_mode = WAL; PRAGMA synchronous = NORMAL; CREATE TABLE t (id INTEGER PRIMARY KEY, v TEXT NOT NULL, pad TEXT NOT NULL);")?;
    let tx = conn.unchecked_transaction()?;
    {
        let mut st = tx.prepare("INSERT INTO t (id, v, pad) VALUES (?, ?, ?)")?;
        let p = "x".repeat(pad);
        for i in 0..rows {
            st.execute(rusqlite::params![i, tag, p])?;
        }
    }
    tx.commit()?;
    conn.execute_batch("PRAGMA wal_checkpoint(TRUNCATE);")?;
    Ok(())
}

/// child process: read the whole table in one transaction, over and over
pub fn reader_main(args: &[String]) -> i32 {
    let (db, stop, out, pause_us) = (&args[0], &args[1], &args[2], args[3].parse::<u64>().unwrap_or(0));
    let mut lines: Vec<String> = vec![];
    let mut conn: Option<rusqlite::Connection> = None;
    while !Path::new(stop).exists() {
        if conn.is_none() {
            conn = rusqlite::Connection::open_with_flags(db, rusqlite::OpenFlags::SQLITE_OPEN_READ_WRITE).ok();
            if let Some(c) = &conn {
                let _ = c.busy_timeout(Duration::from_millis(0));
                if let Some(n) = args.get(4).and_then(|x| x.parse::<i64>().ok()) {
                    if n > 0 {
                        let _ = c.execute_batch(&format!("PRAGMA cache_size = {n};"));
                    }
                }
            }
        }
        let Some(c) = &conn else {
            lines.push("err open".into());
            continue;
        };
        let r: rusqlite::Result<(i64, i64, Option<String>, Option<String>)> = c.query_row("SELECT count(*), count(DISTINCT v), min(v), max(v) FROM t", [], |r| Ok((r.get(0)?, r.get(1)?, r.get(2)?, r.get(3)?)));
        match r {
            Ok((n, d, lo, hi)) => lines.push(format!("ok {n} {d} {} {}", lo.unwrap_or_default(), hi.unwrap_or_default())),
            Err(e) => {
                lines.push(format!("err {}", e.to_string().replace('\n', " ")));
                // start over with a new handle now and then, as a client would
                if lines.len() % 7 == 0 {
                    conn = None;
                }
            }
        }
        if pause_us > 0 {
            std::thread::sleep(Duration::from_micros(pause_us));
        }
    }
    let _ = std::fs::write(out, lines.join("\n"));
    0
}

pub fn check_live(case: &LiveCase, info: &mut CaseInfo) -> Result<(), Fail> {
    let root = crate::sim::scratch_root();
    let _ = std::fs::create_dir_all(&root);
    let dir = tempfile::Builder::new().prefix("c19l-").tempdir_in(root).map_err(|e| Fail::infra(e.to_string()))?;
    let dst = dir.path().join("dst.db");
    let src = dir.path().join("src.db");
    make_db(&dst, case.old_rows as u32, "old", case.pad as usize).map_err(|e| Fail::infra(e.to_string()))?;
    make_db(&src, case.new_rows as u32, "new", case.pad as usize).map_err(|e| Fail::infra(e.to_string()))?;
    let stop = dir.path().join("stop");
    let exe = std::env::current_exe().map_err(|e| Fail::infra(e.to_string()))?;
    let mut kids = vec![];
    for i in 0..case.readers {
        let out = dir.path().join(format!("reader{i}.out"));
        let child = std::process::Command::new(&exe)
            .args(["c19-reader", &dst.display().to_string(), &stop.display().to_string(), &out.display().to_string(), &case.reader_pause_us.to_string(), &case.reader_cache_pages.to_string()])
            .spawn()
            .map_err(|e| Fail::infra(format!("spawn reader: {e}")))?;
        kids.push((child, out));
    }
    std::thread::sleep(Duration::from_millis(15));
    // un-checkpointed frames in the destination's WAL (the readers keep it alive)
    let mut old_total = case.old_rows as i64;
    if case.wal_rows > 0 {
        let conn = rusqlite::Connection::open(&dst).map_err(|e| Fail::infra(e.to_string()))?;
        let _ = conn.busy_timeout(Duration::from_secs(5));
        conn.execute_batch("PRAGMA wal_autocheckpoint = 0;").map_err(|e| Fail::infra(e.to_string()))?;
        let tx = conn.unchecked_transaction().map_err(|e| Fail::infra(e.to_string()))?;
        for i in 0..case.wal_rows as i64 {
            tx.execute("INSERT INTO t (id, v, pad) VALUES (?, 'old', '')", [100_000 + i]).map_err(|e| Fail::infra(e.to_string()))?;
        }
        tx.commit().map_err(|e| Fail::infra(e.to_string()))?;
        old_total += case.wal_rows as i64;
    }
    std::thread::sleep(Duration::from_millis(case.lead_ms as u64));
    let res = klukai_types::sqlite3_restore::restore(&src, &dst, Duration::from_secs(10));
    std::thread::sleep(Duration::from_millis(25));
    let _ = std::fs::write(&stop, b"");
    let mut ok_old = 0;
    let mut ok_new = 0;
    let mut refused = 0;
    let mut verdict = Ok(());
    for (mut child, out) in kids {
        let _ = child.wait();
        let text = std::fs::read_to_string(&out).unwrap_or_default();
        for (ln, l) in text.lines().enumerate() {
            if let Some(rest) = l.strip_prefix("ok ") {
                let f: Vec<&str> = rest.split(' ').collect();
                let n: i64 = f.first().and_then(|x| x.parse().ok()).unwrap_or(-1);
                let distinct: i64 = f.get(1).and_then(|x| x.parse().ok()).unwrap_or(-1);
                let lo = f.get(2).cloned().unwrap_or("");
                let is_old = distinct == 1 && lo == "old" && (n == old_total || n == case.old_rows as i64);
                let is_new = distinct == 1 && lo == "new" && n == case.new_rows as i64;
                if is_old {
                    ok_old += 1;
                } else if is_new {
                    ok_new += 1;
                } else if verdict.is_ok() {
                    let mut f = Fail::new(
                        "successful-read-is-all-old-or-all-new",
                        format!("reader read #{ln} returned {l:?}: neither the old database ({} or {old_total} rows 'old') nor the new one ({} rows 'new'); restore result {:?}", case.old_rows, case.new_rows, res.as_ref().map(|r| (r.old_len, r.new_len, r.is_wal)).map_err(|e| e.to_string())),
                    );
                    // known finding: other processes' page caches are invalidated only through the zeroed wal-index
                    // header, which the first reader to notice rebuilds; a second reader with a partly cached old
                    // database can then return a read mixing old and new pages.  Reproduced only with >= 2 reader
                    // processes and a page cache smaller than the database; a single reader is always correct.
                    if case.readers >= 2 && case.reader_cache_pages > 0 && res.is_ok() {
                        f = f.finding(KF_STALE_CACHE);
                    }
                    verdict = Err(f);
                }
            } else {
                refused += 1;
            }
        }
    }
    verdict?;
    // afterwards a fresh reader sees exactly one of the two, matching the outcome
    let conn = rusqlite::Connection::open(&dst).map_err(|e| Fail::infra(e.to_string()))?;
    let fin: rusqlite::Result<(i64, Option<String>, Option<String>)> = conn.query_row("SELECT count(*), min(v), max(v) FROM t", [], |r| Ok((r.get(0)?, r.get(1)?, r.get(2)?)));
    match (&res, fin) {
        (Ok(_), Ok((n, lo, hi))) => ensure!(n == case.new_rows as i64 && lo.as_deref() == Some("new") && hi.as_deref() == Some("new"), "restore-replaces-content-completely", "after a successful restore a fresh connection reads {n} rows {lo:?}..{hi:?}, expected {} rows 'new'", case.new_rows),
        (Ok(_), Err(e)) => return Err(Fail::new("restore-replaces-content-completely", format!("after a successful restore the database cannot be read: {e}"))),
        (Err(_), Ok((n, lo, _))) => ensure!(n == old_total && lo.as_deref() == Some("old"), "failed-restore-leaves-database-untouched", "restore failed ({:?}) but a fresh connection reads {n} rows {lo:?}", res.as_ref().err().map(|e| e.to_string())),
        (Err(e), Err(e2)) => return Err(Fail::new("failed-restore-leaves-database-untouched", format!("restore failed ({e}) and the database cannot be read: {e2}"))),
    }
    if refused > 0 {
        info.class("reads-refused-during-restore");
    }
    if ok_old > 0 && ok_new > 0 {
        info.class("readers-saw-old-then-new");
    }
    if case.wal_rows > 0 {
        info.class("destination-with-unflushed-wal");
    }
    if res.is_err() {
        info.class("restore-refused");
    }
    info.total_ops += (ok_old + ok_new + refused) as u64;
    info.nontrivial = ok_old > 0 && ok_new > 0;
    Ok(())
}

pub fn run(ctx: &Ctx, rep: &mut Report) {
    let (n_b, n_l) = match ctx.tier {
        Tier::Quick => (160, 320),
        Tier::Thorough => (1_200, 8_000),
    };
    run_prop(ctx, rep, "backup", backup_strategy(), n_b, 60, check_backup);
    run_prop(ctx, rep, "live-restore", live_strategy(), n_l, 200, check_live);
}

pub fn replay(sub: &str, case: &serde_json::Value) -> Result<CaseInfo, Fail> {
    if sub.starts_with("backup") { replay_case::<BackupCase, _>(case, check_backup) } else { replay_case::<LiveCase, _>(case, check_live) }
}
