//! C20 – database writers are mutually exclusive, prioritised and never deadlock.
//! Sub-campaign "pool": the real `SplitPool` of a real node under generated request schedules (three
//! priorities, arrival offsets, hold times, requesters cancelled while queued or while holding); holders
//! count the live write connections, a blocker phase fixes who is waiting at the moment of a release.
//! Sub-campaign "mix": a full agent with its real loops under a generated concurrent mix of local writes,
//! remote changes (complete and chunked versions that get buffered and applied later), sync-state
//! generation, subscription matching, cancelled HTTP requests and low-priority maintenance holders; all
//! of it has to finish long before a watchdog, and the node has to answer a write and a sync-state
//! request afterwards.

use std::{
    sync::{
        Arc,
        atomic::{AtomicBool, AtomicUsize, Ordering},
    },
    time::Duration,
};

use klukai_types::{actor::ClusterId, api::Statement, sync::generate_sync};
use proptest::prelude::*;
use serde::{Deserialize, Serialize};
use serde_json::json;

use crate::{
    c01::with_world,
    c11::{Cluster, SOp, sop_sql, sop_strategy},
    c16::uni_frame,
    common::{CaseInfo, Ctx, Fail, Report, Tier, replay_case, run_prop},
    ensure,
    live::http,
    sim::{self, SimNode},
};

// ------------------------------------------------------------------------------------------------
// pool

#[derive(Debug, Clone, Serialize, Deserialize)]
pub struct Req {
    /// 0 priority, 1 normal, 2 low
    pub prio: u8,
    pub arrive_ms: u8,
    pub hold_ms: u8,
    /// 0: runs to completion, 1: cancelled after `cancel_ms` whatever it is doing then
    pub cancel: bool,
    pub cancel_ms: u8,
}

#[derive(Debug, Clone, Serialize, Deserialize)]
pub struct PoolCase {
    /// free-running requests
    pub reqs: Vec<Req>,
    /// priorities of the waiters queued (in this order) while a blocker holds the connection
    pub waiters: Vec<u8>,
    pub blocker_prio: u8,
}

pub fn pool_strategy() -> impl Strategy<Value = PoolCase> {
    let req = (0u8..3, 0u8..25, 0u8..12, prop_oneof![3 => Just(false), 1 => Just(true)], 0u8..30).prop_map(|(prio, arrive_ms, hold_ms, cancel, cancel_ms)| Req { prio, arrive_ms, hold_ms, cancel, cancel_ms });
    (proptest::collection::vec(req, 2..24), proptest::collection::vec(0u8..3, 2..10), 0u8..3).prop_map(|(reqs, waiters, blocker_prio)| PoolCase { reqs, waiters, blocker_prio })
}

async fn acquire(pool: &klukai_types::agent::SplitPool, prio: u8) -> Result<klukai_types::agent::WriteConn, String> {
    match prio % 3 {
        0 => pool.write_priority().await,
        1 => pool.write_normal().await,
        _ => pool.write_low().await,
    }
    .map_err(|e| e.to_string())
}

async fn run_pool(case: &PoolCase, info: &mut CaseInfo, root: std::path::PathBuf) -> Result<(), Fail> {
    let node = SimNode::new(0, root.join("n0")).await.map_err(|e| Fail::infra(e.0))?;
    let pool = node.agent.pool().clone();
    let live = Arc::new(AtomicUsize::new(0));
    let overlap = Arc::new(AtomicBool::new(false));
    let granted = Arc::new(AtomicUsize::new(0));

    // --- phase 1: free-running requests
    let mut tasks = vec![];
    for (i, r) in case.reqs.iter().cloned().enumerate() {
        let pool = pool.clone();
        let live = live.clone();
        let overlap = overlap.clone();
        let granted = granted.clone();
        let body = async move {
            tokio::time::sleep(Duration::from_millis(r.arrive_ms as u64)).await;
            let conn = acquire(&pool, r.prio).await?;
            // holding: count, touch the database like a writer does, release
            struct Holding(Arc<AtomicUsize>);
            impl Drop for Holding {
                fn drop(&mut self) {
                    self.0.fetch_sub(1, Ordering::SeqCst);
                }
            }
            if live.fetch_add(1, Ordering::SeqCst) != 0 {
                overlap.store(true, Ordering::SeqCst);
            }
            let _h = Holding(live.clone());
            granted.fetch_add(1, Ordering::SeqCst);
            let r2 = tokio::task::block_in_place(|| conn.execute_batch(&format!("BEGIN IMMEDIATE; INSERT INTO kv (id, a, b) VALUES ({}, 'c20', {i}) ON CONFLICT (id) DO UPDATE SET b = excluded.b; COMMIT", 5000 + i)));
            tokio::time::sleep(Duration::from_millis(r.hold_ms as u64)).await;
            if live.load(Ordering::SeqCst) != 1 {
                overlap.store(true, Ordering::SeqCst);
            }
            drop(_h);
            drop(conn);
            r2.map_err(|e| format!("write while holding the connection failed: {e}"))
        };
        tasks.push((
            i,
            r.clone(),
            tokio::spawn(async move {
                if r.cancel {
                    match tokio::time::timeout(Duration::from_millis(r.cancel_ms as u64), body).await {
                        Ok(x) => x.map(|_| true),
                        Err(_) => Ok(false),
                    }
                } else {
                    body.await.map(|_| true)
                }
            }),
        ));
    }
    let watchdog = Duration::from_secs(60);
    let mut cancelled = 0;
    for (i, r, t) in tasks {
        match tokio::time::timeout(watchdog, t).await {
            Err(_) => {
                return Err(Fail::new("every-request-completes", format!("request #{i} {r:?} did not finish within {watchdog:?} (schedule of {} requests, {} cancelled so far)", case.reqs.len(), cancelled)));
            }
            Ok(Err(e)) => return Err(Fail::new("harness-panic", format!("request #{i}: {e}"))),
            Ok(Ok(Err(e))) => return Err(Fail::new("holder-can-write", format!("request #{i} {r:?}: {e}"))),
            Ok(Ok(Ok(done))) => {
                if !done {
                    cancelled += 1;
                }
            }
        }
    }
    ensure!(!overlap.load(Ordering::SeqCst), "one-write-connection-at-a-time", "two holders of a write connection overlapped (schedule {:?})", case.reqs);
    ensure!(live.load(Ordering::SeqCst) == 0, "infra", "holder count not back to zero");

    // --- phase 2: who is served first at a release
    let blocker = acquire(&pool, case.blocker_prio).await.map_err(|e| Fail::new("every-request-completes", format!("blocker after the free-running phase ({cancelled} cancelled requests): {e}")))?;
    let order = Arc::new(std::sync::Mutex::new(Vec::<(usize, u8)>::new()));
    // every waiter is a future polled once by hand: that poll runs the request up to the point where it sits in
    // its queue (the queues have room for hundreds), so "queued before the release, in this order" is a fact and
    // not a matter of timing
    let mut futs = vec![];
    for (i, p) in case.waiters.iter().cloned().enumerate() {
        let pool = pool.clone();
        let order = order.clone();
        let live = live.clone();
        let overlap = overlap.clone();
        let mut fut: std::pin::Pin<Box<dyn std::future::Future<Output = Result<(), String>> + Send>> = Box::pin(async move {
            let conn = acquire(&pool, p).await?;
            if live.fetch_add(1, Ordering::SeqCst) != 0 {
                overlap.store(true, Ordering::SeqCst);
            }
            order.lock().unwrap().push((i, p % 3));
            tokio::time::sleep(Duration::from_millis(1)).await;
            live.fetch_sub(1, Ordering::SeqCst);
            drop(conn);
            Ok::<(), String>(())
        });
        if let std::task::Poll::Ready(r) = futures::poll!(fut.as_mut()) {
            return Err(Fail::new("one-write-connection-at-a-time", format!("waiter #{i} finished ({r:?}) while the blocker still held the connection")));
        }
        futs.push(fut);
    }
    tokio::time::sleep(Duration::from_millis(5)).await;
    ensure!(order.lock().unwrap().is_empty(), "one-write-connection-at-a-time", "a waiter was granted the connection while the blocker still held it: {:?}", order.lock().unwrap());
    live.store(0, Ordering::SeqCst);
    drop(blocker);
    match tokio::time::timeout(watchdog, futures::future::join_all(futs)).await {
        Err(_) => return Err(Fail::new("every-request-completes", format!("waiters (priorities {:?}) were not all served within {watchdog:?}; served so far: {:?}", case.waiters, order.lock().unwrap()))),
        Ok(results) => {
            for (i, r) in results.into_iter().enumerate() {
                if let Err(e) = r {
                    return Err(Fail::new("every-request-completes", format!("waiter #{i}: {e}")));
                }
            }
        }
    }
    ensure!(!overlap.load(Ordering::SeqCst), "one-write-connection-at-a-time", "two waiters held a write connection at once");
    let order = order.lock().unwrap().clone();
    // no normal / low request is served while a priority request queued before the release still waits
    let n_prio = case.waiters.iter().filter(|p| **p % 3 == 0).count();
    let first_n: Vec<u8> = order.iter().take(n_prio).map(|(_, p)| *p).collect();
    ensure!(first_n.iter().all(|p| *p == 0), "priority-requests-are-served-first", "waiters queued as {:?} behind a blocker were served in the order {order:?}", case.waiters);
    // FIFO inside the priority class
    let prio_order: Vec<usize> = order.iter().filter(|(_, p)| *p == 0).map(|(i, _)| *i).collect();
    let mut sorted = prio_order.clone();
    sorted.sort();
    if prio_order != sorted {
        info.class("priority-class-not-fifo");
    }
    let rest: Vec<u8> = order.iter().skip(n_prio).map(|(_, p)| *p).collect();
    if rest.windows(2).all(|w| w[0] <= w[1]) {
        info.class("normal-before-low");
    }
    if cancelled > 0 {
        info.class("requests-cancelled");
    }
    info.total_ops += (case.reqs.len() + case.waiters.len()) as u64;
    let kinds: std::collections::BTreeSet<u8> = case.waiters.iter().map(|p| p % 3).collect();
    info.nontrivial = n_prio >= 1 && kinds.len() >= 2 && cancelled >= 1;
    Ok(())
}

pub fn check_pool(case: &PoolCase, info: &mut CaseInfo) -> Result<(), Fail> {
    with_world("c20p-", |root| run_pool(case, info, root))
}

// ------------------------------------------------------------------------------------------------
// mix

#[derive(Debug, Clone, Serialize, Deserialize)]
pub struct MixCase {
    pub local: Vec<Vec<SOp>>,
    pub remote: Vec<(u8, Vec<SOp>)>,
    /// rows of one large remote transaction whose broadcast chunks are delivered last-first (buffered, then applied)
    pub big_rows: u16,
    pub cancelled_requests: u8,
    pub maintenance_holders: u8,
    pub sync_state_calls: u8,
    pub spacing_ms: u8,
    /// perf.apply_channel_len of the node (0: default 2048) - a small value lets apply triggers back up
    #[serde(default)]
    pub apply_channel_len: u8,
    /// further chunked versions (rows each), all delivered last chunk first, all in one burst
    #[serde(default)]
    pub chunked: Vec<u16>,
}

pub fn mix_strategy() -> impl Strategy<Value = MixCase> {
    (
        proptest::collection::vec(proptest::collection::vec(sop_strategy(), 1..4), 2..12),
        proptest::collection::vec((0u8..2, proptest::collection::vec(sop_strategy(), 1..4)), 2..12),
        prop_oneof![1 => Just(0u16), 2 => 40u16..400],
        0u8..8,
        0u8..6,
        2u8..30,
        0u8..6,
        prop_oneof![1 => Just(0u8), 1 => 1u8..4],
        proptest::collection::vec(30u16..160, 0..7),
    )
        .prop_map(|(local, remote, big_rows, cancelled_requests, maintenance_holders, sync_state_calls, spacing_ms, apply_channel_len, chunked)| MixCase { local, remote, big_rows, cancelled_requests, maintenance_holders, sync_state_calls, spacing_ms, apply_channel_len, chunked })
}

async fn run_mix(case: &MixCase, info: &mut CaseInfo, root: std::path::PathBuf) -> Result<(), Fail> {
    let acl = case.apply_channel_len as usize;
    let mut cl = Cluster::start(&root, move |c| {
        if acl > 0 {
            c.perf.apply_channel_len = acl;
        }
    })
    .await?;
    // the remote part is produced up front (the origins are not under test), delivery is concurrent
    let mut frames: Vec<bytes::Bytes> = vec![];
    for (o, ops) in &case.remote {
        let oi = *o as usize % cl.origins.len();
        let (st, ver, res) = cl.origins[oi].transact(ops.iter().map(|o| Statement::Simple(sop_sql(o))).collect()).await;
        ensure!(st == 200, "infra", "origin transaction: {st} {res:?}");
        if let Some(v) = ver {
            for m in cl.origins[oi].collect_broadcast(v, None).await.map_err(|e| Fail::infra(e.0))? {
                frames.push(uni_frame(&m, Some(ClusterId(0)))?);
            }
            cl.remote_versions += 1;
        }
    }
    let mut big_frames: Vec<bytes::Bytes> = vec![];
    if case.big_rows > 0 {
        let sql = format!(
            "WITH RECURSIVE c(x) AS (SELECT 1 UNION ALL SELECT x + 1 FROM c WHERE x < {}) INSERT INTO inst (svc_id, node, port, up) SELECT 100 + x, 'big' || x, x, 1 FROM c",
            case.big_rows
        );
        let (st, ver, res) = cl.origins[0].transact(vec![Statement::Simple(sql)]).await;
        ensure!(st == 200, "infra", "big origin transaction: {st} {res:?}");
        if let Some(v) = ver {
            let msgs = cl.origins[0].collect_broadcast(v, None).await.map_err(|e| Fail::infra(e.0))?;
            if msgs.len() > 1 {
                info.class("chunked-version-delivered-out-of-order");
            }
            for m in msgs.iter().rev() {
                big_frames.push(uni_frame(m, Some(ClusterId(0)))?);
            }
            cl.remote_versions += 1;
        }
    }
    // several chunked versions: every version's first chunk comes last, the final chunks of all of them arrive
    // back to back, so the node finishes buffering many versions while the apply loop is busy
    let mut tails: Vec<bytes::Bytes> = vec![];
    for (k, rows) in case.chunked.iter().enumerate() {
        let oi = k % cl.origins.len();
        let sql = format!(
            "WITH RECURSIVE c(x) AS (SELECT 1 UNION ALL SELECT x + 1 FROM c WHERE x < {rows}) INSERT INTO inst (svc_id, node, port, up) SELECT {} + x, 'ch{k}_' || x, x, 1 FROM c",
            1000 * (k + 2)
        );
        let (st, ver, res) = cl.origins[oi].transact(vec![Statement::Simple(sql)]).await;
        ensure!(st == 200, "infra", "chunked origin transaction: {st} {res:?}");
        if let Some(v) = ver {
            let msgs = cl.origins[oi].collect_broadcast(v, None).await.map_err(|e| Fail::infra(e.0))?;
            for (i, m) in msgs.iter().enumerate().rev() {
                let f = uni_frame(m, Some(ClusterId(0)))?;
                if i == 0 && msgs.len() > 1 {
                    tails.push(f);
                } else {
                    big_frames.push(f);
                }
            }
            cl.remote_versions += 1;
        }
    }
    if tails.len() >= 2 {
        info.class("several-versions-complete-back-to-back");
    }
    big_frames.extend(tails);
    let api = cl.b.api_addr;
    let gossip = cl.b.agent.gossip_addr();
    let ct: Vec<(String, String)> = vec![("content-type".into(), "application/json".into())];
    // a subscription and an update feed keep the matchers busy
    let _sub = crate::c11::subscribe(&cl.b, "SELECT s.id, s.name, i.node FROM svc s JOIN inst i ON i.svc_id = s.id").await?;
    let _feed = crate::live::open_stream(api, "POST", "/v1/updates/inst", &ct, None).await.map_err(|e| Fail::infra(e.0))?;

    let spacing = Duration::from_millis(case.spacing_ms as u64);
    let mut tasks: Vec<(&'static str, tokio::task::JoinHandle<Result<(), String>>)> = vec![];
    // local writers (two lanes)
    for lane in 0..2usize {
        let txs: Vec<Vec<String>> = case.local.iter().enumerate().filter(|(i, _)| i % 2 == lane).map(|(_, ops)| ops.iter().map(sop_sql).collect()).collect();
        let ct = ct.clone();
        tasks.push((
            "local writer",
            tokio::spawn(async move {
                for stmts in txs {
                    let body: Vec<serde_json::Value> = stmts.iter().map(|s| json!([s, []])).collect();
                    let r = http(api, "POST", "/v1/transactions", &ct, Some(serde_json::to_vec(&body).unwrap()), Duration::from_secs(40)).await.map_err(|e| e.0)?;
                    if r.status != 200 {
                        return Err(format!("local transaction refused: {} {}", r.status, String::from_utf8_lossy(&r.body)));
                    }
                    tokio::time::sleep(spacing).await;
                }
                Ok(())
            }),
        ));
    }
    // remote deliveries
    {
        let transport = cl.transport.clone();
        let all: Vec<bytes::Bytes> = frames.iter().cloned().chain(big_frames.iter().cloned()).collect();
        tasks.push((
            "remote deliveries",
            tokio::spawn(async move {
                for f in all {
                    transport.send_uni(gossip, f).await.map_err(|e| format!("send_uni: {e}"))?;
                    tokio::time::sleep(spacing / 2).await;
                }
                Ok(())
            }),
        ));
    }
    // sync-state generation (bookkeeping read locks)
    {
        let bookie = cl.b.bookie.clone();
        let actor = cl.b.agent.actor_id();
        let n = case.sync_state_calls;
        tasks.push((
            "sync state generation",
            tokio::spawn(async move {
                for _ in 0..n {
                    let _ = generate_sync(&bookie, actor).await;
                    tokio::time::sleep(Duration::from_millis(3)).await;
                }
                Ok(())
            }),
        ));
    }
    // requests whose client goes away
    {
        let n = case.cancelled_requests;
        let ct = ct.clone();
        tasks.push((
            "cancelled requests",
            tokio::spawn(async move {
                for k in 0..n {
                    let body = json!([[format!("INSERT INTO meta (k, svc_id, note) VALUES ('gone{k}', NULL, 'x') ON CONFLICT (k) DO UPDATE SET note = excluded.note"), []]]);
                    let fut = http(api, "POST", "/v1/transactions", &ct, Some(serde_json::to_vec(&body).unwrap()), Duration::from_secs(5));
                    let _ = tokio::time::timeout(Duration::from_micros(200 + 700 * k as u64), fut).await;
                }
                Ok(())
            }),
        ));
    }
    // maintenance-like holders of the low priority queue
    {
        let pool = cl.b.agent.pool().clone();
        let n = case.maintenance_holders;
        tasks.push((
            "maintenance holders",
            tokio::spawn(async move {
                for k in 0..n {
                    let conn = pool.write_low().await.map_err(|e| format!("write_low: {e}"))?;
                    tokio::time::sleep(Duration::from_millis(2 + 3 * k as u64)).await;
                    drop(conn);
                }
                Ok(())
            }),
        ));
    }
    let watchdog = Duration::from_secs(90);
    let t0 = tokio::time::Instant::now();
    for (name, t) in tasks {
        let left = watchdog.saturating_sub(t0.elapsed());
        match tokio::time::timeout(left, t).await {
            Err(_) => return Err(Fail::new("every-activity-completes", format!("'{name}' did not finish within {watchdog:?} (mix: {} local, {} remote versions, big {}, {} cancelled requests, {} maintenance holders)", case.local.len(), cl.remote_versions, case.big_rows, case.cancelled_requests, case.maintenance_holders))),
            Ok(Err(e)) => return Err(Fail::new("harness-panic", format!("{name}: {e}"))),
            Ok(Ok(Err(e))) => return Err(Fail::new("every-activity-completes", format!("{name}: {e}"))),
            Ok(Ok(Ok(()))) => {}
        }
    }
    // everything delivered has to be taken in (apply of the buffered version included)
    let t1 = tokio::time::Instant::now();
    while !cl.remote_applied().await? {
        ensure!(t1.elapsed() < Duration::from_secs(60), "every-activity-completes", "remote versions (incl. the chunked one, {} rows) were not applied within 60 s after all deliveries", case.big_rows);
        tokio::time::sleep(Duration::from_millis(25)).await;
    }
    // the node still answers
    let r = tokio::time::timeout(Duration::from_secs(30), http(api, "POST", "/v1/transactions", &ct, Some(serde_json::to_vec(&json!([["INSERT INTO meta (k, svc_id, note) VALUES ('probe', NULL, 'p') ON CONFLICT (k) DO UPDATE SET note = excluded.note", []]])).unwrap()), Duration::from_secs(30))).await;
    match r {
        Ok(Ok(r)) => ensure!(r.status == 200, "node-still-answers", "probe write after the mix: {}", r.status),
        Ok(Err(e)) => return Err(Fail::infra(e.0)),
        Err(_) => return Err(Fail::new("node-still-answers", "a priority write after the mix did not finish within 30 s")),
    }
    ensure!(tokio::time::timeout(Duration::from_secs(30), generate_sync(&cl.b.bookie, cl.b.agent.actor_id())).await.is_ok(), "node-still-answers", "generate_sync after the mix did not finish within 30 s");
    info.total_ops += (case.local.len() + case.remote.len()) as u64;
    if case.cancelled_requests > 0 {
        info.class("cancelled-http-requests");
    }
    info.nontrivial = case.local.len() >= 3 && cl.remote_versions >= 3 && (case.cancelled_requests > 0 || case.maintenance_holders > 0);
    cl.b.abandon_in_place().await;
    Ok(())
}

pub fn check_mix(case: &MixCase, info: &mut CaseInfo) -> Result<(), Fail> {
    let root = sim::scratch_root();
    let _ = std::fs::create_dir_all(&root);
    let dir = tempfile::Builder::new().prefix("c20m-").tempdir_in(root).map_err(|e| Fail::infra(e.to_string()))?;
    let rt = sim::new_runtime(4);
    let r = rt.block_on(run_mix(case, info, dir.path().to_path_buf()));
    rt.shutdown_timeout(Duration::from_millis(200));
    r
}

pub fn run(ctx: &Ctx, rep: &mut Report) {
    let (n_pool, n_mix) = match ctx.tier {
        Tier::Quick => (480, 160),
        Tier::Thorough => (12_000, 2_400),
    };
    run_prop(ctx, rep, "pool", pool_strategy(), n_pool, 200, check_pool);
    run_prop(ctx, rep, "mix", mix_strategy(), n_mix, 40, check_mix);
}

pub fn replay(sub: &str, case: &serde_json::Value) -> Result<CaseInfo, Fail> {
    if sub.starts_with("pool") { replay_case::<PoolCase, _>(case, check_pool) } else { replay_case::<MixCase, _>(case, check_mix) }
}
