//! Shared plumbing: worker context, report, proptest runner with first-failure freeze,
//! known-finding handling, replay (bypasses the library).

use std::{
    cell::RefCell,
    collections::{BTreeMap, BTreeSet, HashSet},
    fmt::Debug,
    hash::{Hash, Hasher},
    path::PathBuf,
};

use proptest::{
    strategy::Strategy,
    test_runner::{Config, RngSeed, TestCaseError, TestError, TestRunner},
};
use serde::{Serialize, de::DeserializeOwned};
use serde_json::{Value, json};

#[derive(Clone, Copy, PartialEq, Eq, Debug)]
pub enum Tier {
    Quick,
    Thorough,
}

#[derive(Clone, Debug)]
pub struct Ctx {
    pub prop: String,
    pub tier: Tier,
    pub seed: u64,
    pub worker: u32,
    pub workers: u32,
    pub out: PathBuf,
    /// scale factor applied to all case counts (for smoke runs / sensitivity runs)
    pub scale: f64,
    /// directory for scratch files of this worker
    pub work: PathBuf,
    /// known finding ids with status "known" (suppressing) for this property
    pub known: BTreeSet<String>,
    /// only run sub-campaigns whose name contains this
    pub only: Option<String>,
}

impl Ctx {
    /// number of cases this worker should run for a sub-campaign with `total` cases overall
    pub fn share(&self, total: u64) -> u32 {
        let t = ((total as f64) * self.scale).ceil() as u64;
        let base = t / self.workers as u64;
        let extra = if (self.worker as u64) < t % self.workers as u64 { 1 } else { 0 };
        (base + extra).max(1) as u32
    }
    pub fn sub_seed(&self, name: &str) -> u64 {
        let mut h = seahash::SeaHasher::new();
        self.seed.hash(&mut h);
        self.worker.hash(&mut h);
        name.hash(&mut h);
        h.finish()
    }
    pub fn wants(&self, name: &str) -> bool {
        self.only.as_ref().map(|o| name.contains(o.as_str())).unwrap_or(true)
    }
    pub fn is_known(&self, id: &str) -> bool {
        self.known.contains(id)
    }
}

/// A property failure detected by an oracle.
#[derive(Clone, Debug)]
pub struct Fail {
    /// which clause of the oracle failed (stable identifier)
    pub clause: String,
    pub msg: String,
    /// id of a known finding this failure matches (set by the property module's classifier)
    pub finding: Option<String>,
}

impl Fail {
    pub fn new(clause: &str, msg: impl Into<String>) -> Self {
        Fail { clause: clause.to_string(), msg: msg.into(), finding: None }
    }
    pub fn infra(msg: impl Into<String>) -> Self {
        Fail { clause: "infra".to_string(), msg: msg.into(), finding: None }
    }
    pub fn finding(mut self, id: &str) -> Self {
        self.finding = Some(id.to_string());
        self
    }
}

#[macro_export]
macro_rules! ensure {
    ($cond:expr, $clause:expr, $($arg:tt)*) => {
        if !($cond) {
            return Err($crate::common::Fail::new($clause, format!($($arg)*)));
        }
    };
}

/// per-case info the oracle fills in
#[derive(Default, Debug)]
pub struct CaseInfo {
    pub nontrivial: bool,
    pub classes: Vec<&'static str>,
    pub skipped_ops: u64,
    pub total_ops: u64,
    /// known findings observed (and tolerated) inside this case
    pub known_hits: Vec<(String, String)>,
}

impl CaseInfo {
    pub fn class(&mut self, c: &'static str) {
        if !self.classes.contains(&c) {
            self.classes.push(c);
        }
    }
}

#[derive(Default)]
pub struct Report {
    pub evaluations: u64,
    pub nontrivial: HashSet<u64>,
    pub classes: BTreeMap<String, u64>,
    pub samples: Vec<Value>,
    pub violations: Vec<Value>,
    pub known_hits: BTreeMap<String, (u64, Value)>,
    pub excluded: BTreeMap<String, u64>,
    pub skipped_ops: u64,
    pub total_ops: u64,
    pub sub: BTreeMap<String, Value>,
    pub notes: Vec<String>,
    pub infra: u64,
}

pub fn hash_json<T: Serialize>(v: &T) -> u64 {
    let s = serde_json::to_vec(v).unwrap();
    seahash::hash(&s)
}

fn truncate_json(v: Value) -> Value {
    let s = v.to_string();
    if s.len() > 6000 {
        json!({"truncated": true, "prefix": s.chars().take(6000).collect::<String>()})
    } else {
        v
    }
}

impl Report {
    pub fn note(&mut self, s: impl Into<String>) {
        self.notes.push(s.into());
    }
    pub fn account<T: Serialize>(&mut self, sub: &str, case: &T, info: &CaseInfo) {
        self.evaluations += 1;
        self.skipped_ops += info.skipped_ops;
        self.total_ops += info.total_ops;
        for c in &info.classes {
            *self.classes.entry(format!("{sub}:{c}")).or_default() += 1;
        }
        if info.nontrivial {
            let h = hash_json(&(sub, case));
            if self.nontrivial.insert(h) && self.samples.iter().filter(|s| s["sub"] == sub).count() < 3 {
                self.samples.push(json!({"sub": sub, "case": truncate_json(serde_json::to_value(case).unwrap())}));
            }
        }
        for (id, what) in &info.known_hits {
            let e = self
                .known_hits
                .entry(id.clone())
                .or_insert_with(|| (0, json!({"sub": sub, "what": what, "case": truncate_json(serde_json::to_value(case).unwrap())})));
            e.0 += 1;
        }
    }

    pub fn violation<T: Serialize>(&mut self, sub: &str, case: &T, fail: &Fail, shrunk: bool) {
        self.violations.push(json!({
            "sub": sub,
            "clause": fail.clause,
            "msg": fail.msg,
            "finding": fail.finding,
            "shrunk": shrunk,
            "case": serde_json::to_value(case).unwrap(),
        }));
    }

    pub fn write(&self, ctx: &Ctx, wall_s: f64) {
        // nontrivial hashes as raw little-endian u64 file next to the report
        let mut hp = ctx.out.clone();
        hp.set_extension("hashes");
        let mut bytes = Vec::with_capacity(self.nontrivial.len() * 8);
        for h in &self.nontrivial {
            bytes.extend_from_slice(&h.to_le_bytes());
        }
        std::fs::write(&hp, bytes).unwrap();
        let v = json!({
            "property": ctx.prop,
            "worker": ctx.worker,
            "seed": ctx.seed,
            "evaluations": self.evaluations,
            "nontrivial_local": self.nontrivial.len(),
            "classes": self.classes,
            "samples": self.samples,
            "violations": self.violations,
            "known_hits": self.known_hits.iter().map(|(k,(n,c))| (k.clone(), json!({"count": n, "first": c}))).collect::<BTreeMap<_,_>>(),
            "excluded": self.excluded,
            "skipped_ops": self.skipped_ops,
            "total_ops": self.total_ops,
            "sub": self.sub,
            "notes": self.notes,
            "infra": self.infra,
            "wall_s": wall_s,
        });
        std::fs::write(&ctx.out, serde_json::to_vec_pretty(&v).unwrap()).unwrap();
    }
}

/// Run `cases` generated cases of `strategy` through `check`.  The first failure freezes all
/// accounting (the closure is re-run by proptest while shrinking), the shrunk value is reported.
/// Failures whose `finding` is a *known* finding are recorded and tolerated so that the search
/// continues behind them.
pub fn run_prop<T, S, F>(
    ctx: &Ctx,
    rep: &mut Report,
    sub: &str,
    strategy: S,
    total_cases: u64,
    max_shrink_iters: u32,
    check: F,
) where
    T: Debug + Serialize + Clone,
    S: Strategy<Value = T>,
    F: Fn(&T, &mut CaseInfo) -> Result<(), Fail>,
{
    if !ctx.wants(sub) {
        return;
    }
    let cases = ctx.share(total_cases);
    let cfg = Config {
        cases,
        failure_persistence: None,
        rng_seed: RngSeed::Fixed(ctx.sub_seed(sub)),
        max_shrink_iters: if std::env::var_os("KVERIF_NOSHRINK").is_some() { 0 } else { max_shrink_iters },
        // shrinking only affects how small the replay file is, never the verdict
        max_shrink_time: 180_000,
        max_global_rejects: 65536,
        ..Config::default()
    };
    let mut runner = TestRunner::new(cfg);
    struct St<'a> {
        rep: &'a mut Report,
        frozen: bool,
        last_fail: Option<Fail>,
    }
    let st = RefCell::new(St { rep, frozen: false, last_fail: None });
    let t0 = std::time::Instant::now();
    let res = runner.run(&strategy, |case| {
        let mut info = CaseInfo::default();
        let r = std::panic::catch_unwind(std::panic::AssertUnwindSafe(|| check(&case, &mut info)));
        let r = match r {
            Ok(r) => r,
            Err(p) => Err(Fail::new("harness-panic", panic_msg(&p))),
        };
        let mut st = st.borrow_mut();
        match r {
            Ok(()) => {
                if !st.frozen {
                    st.rep.account(sub, &case, &info);
                }
                Ok(())
            }
            Err(f) => {
                if f.clause == "infra" {
                    // harness / environment problem (never a verdict): counted, reported as exit 2
                    if !st.frozen {
                        st.rep.infra += 1;
                        if st.rep.notes.len() < 10 {
                            st.rep.notes.push(format!("{sub}: infra: {}", f.msg));
                            if std::env::var_os("KVERIF_INFRA_CASES").is_some() {
                                st.rep.notes.push(format!("{sub}: infra case: {}", serde_json::to_string(&case).unwrap_or_default()));
                            }
                        }
                    }
                    return Ok(());
                }
                if let Some(id) = &f.finding {
                    if ctx.is_known(id) {
                        if !st.frozen {
                            info.known_hits.push((id.clone(), format!("{}: {}", f.clause, f.msg)));
                            st.rep.account(sub, &case, &info);
                        }
                        return Ok(());
                    }
                }
                st.frozen = true;
                let m = format!("{}: {}", f.clause, f.msg);
                st.last_fail = Some(f);
                Err(TestCaseError::fail(m))
            }
        }
    });
    let st = st.into_inner();
    match res {
        Ok(()) => {}
        Err(TestError::Fail(_, value)) => {
            // re-run the shrunk value once, outside the library, to get its failure record
            let mut info = CaseInfo::default();
            let f = match std::panic::catch_unwind(std::panic::AssertUnwindSafe(|| check(&value, &mut info))) {
                Ok(Err(f)) => f,
                Ok(Ok(())) => st.last_fail.clone().unwrap_or_else(|| Fail::new("flaky", "shrunk case passed on re-run")),
                Err(p) => Fail::new("harness-panic", panic_msg(&p)),
            };
            st.rep.violation(sub, &value, &f, true);
        }
        Err(TestError::Abort(reason)) => {
            st.rep.note(format!("{sub}: proptest aborted: {reason}"));
        }
    }
    st.rep.sub.insert(
        sub.to_string(),
        json!({"cases_requested": cases, "wall_s": t0.elapsed().as_secs_f64()}),
    );
}

pub fn panic_msg(p: &Box<dyn std::any::Any + Send>) -> String {
    if let Some(s) = p.downcast_ref::<&str>() {
        s.to_string()
    } else if let Some(s) = p.downcast_ref::<String>() {
        s.clone()
    } else {
        "non-string panic".to_string()
    }
}

/// Replay one saved case (bypassing proptest).  Returns the failure, if any.
pub fn replay_case<T, F>(case: &Value, check: F) -> Result<CaseInfo, Fail>
where
    T: DeserializeOwned,
    F: Fn(&T, &mut CaseInfo) -> Result<(), Fail>,
{
    let t: T = serde_json::from_value(case.clone()).map_err(|e| Fail::new("replay-decode", e.to_string()))?;
    let mut info = CaseInfo::default();
    match std::panic::catch_unwind(std::panic::AssertUnwindSafe(|| check(&t, &mut info))) {
        Ok(Ok(())) => Ok(info),
        Ok(Err(f)) => Err(f),
        Err(p) => Err(Fail::new("harness-panic", panic_msg(&p))),
    }
}

/// Monotone index mapping (shrinks well): maps a u16 onto 0..len
pub fn idx(i: u16, len: usize) -> usize {
    if len == 0 { 0 } else { ((i as usize) * len) >> 16 }
}

/// Evaluate one enumerated (non-proptest) case: accounts it, tolerates known findings, records at
/// most one violation per (clause, finding) signature.
pub fn eval_enumerated<T, F>(ctx: &Ctx, rep: &mut Report, sub: &str, case: &T, check: F)
where
    T: Serialize,
    F: Fn(&T, &mut CaseInfo) -> Result<(), Fail>,
{
    let mut info = CaseInfo::default();
    let r = match std::panic::catch_unwind(std::panic::AssertUnwindSafe(|| check(case, &mut info))) {
        Ok(r) => r,
        Err(p) => Err(Fail::new("harness-panic", panic_msg(&p))),
    };
    match r {
        Ok(()) => rep.account(sub, case, &info),
        Err(f) => {
            if let Some(id) = &f.finding {
                if ctx.is_known(id) {
                    info.known_hits.push((id.clone(), format!("{}: {}", f.clause, f.msg)));
                    rep.account(sub, case, &info);
                    return;
                }
            }
            let dup = rep.violations.iter().any(|v| v["sub"] == sub && v["clause"] == f.clause.as_str() && v["finding"] == json!(f.finding));
            if !dup {
                rep.violation(sub, case, &f, false);
            }
        }
    }
}
