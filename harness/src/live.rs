#![allow(dead_code)]
//! E3 – full agents (`start_with_config`: real axum router, real background loops, QUIC transport) on
//! loopback, driven over HTTP.

use std::{
    net::SocketAddr,
    path::{Path, PathBuf},
    time::Duration,
};

use bytes::Bytes;
use http_body_util::{BodyExt, Full};
use hyper_util::{client::legacy::Client, rt::TokioExecutor};
use klukai_agent::{agent::start_with_config, transport::Transport};
use klukai_types::{
    agent::{Agent, Bookie},
    config::Config,
    tripwire::{Tripwire, TripwireWorker},
};
use tokio::{sync::mpsc, task::JoinHandle};
use tokio_stream::wrappers::ReceiverStream;

use crate::sim::{SimErr, SimResult, node_config};

pub struct LiveAgent {
    pub agent: Agent,
    pub bookie: Bookie,
    pub transport: Transport,
    pub handles: Vec<JoinHandle<()>>,
    pub dir: PathBuf,
    pub api_addr: SocketAddr,
    tw_tx: mpsc::Sender<()>,
    tw_worker: Option<TripwireWorker<ReceiverStream<()>>>,
    baseline_handles: usize,
}

impl LiveAgent {
    pub async fn start(dir: &Path, adjust: impl FnOnce(&mut Config)) -> SimResult<LiveAgent> {
        std::fs::create_dir_all(dir)?;
        let mut conf = node_config(dir);
        adjust(&mut conf);
        let (tripwire, tw_worker, tw_tx) = Tripwire::new_simple();
        let baseline_handles = klukai_types::spawn::PENDING_HANDLES.load(std::sync::atomic::Ordering::SeqCst);
        let (agent, bookie, transport, handles) = start_with_config(conf, tripwire).await.map_err(|e| SimErr(format!("start_with_config: {e}")))?;
        let api_addr = agent.api_addr();
        Ok(LiveAgent { agent, bookie, transport, handles, dir: dir.to_path_buf(), api_addr, tw_tx, tw_worker: Some(tw_worker), baseline_handles })
    }

    /// no graceful shutdown (the foca loop alone takes 5 s to leave the cluster): trip the tripwire and
    /// let the caller drop the runtime
    pub async fn abandon(mut self) {
        self.abandon_in_place().await
    }

    pub async fn abandon_in_place(&mut self) {
        let _ = self.tw_tx.send(()).await;
        if let Some(w) = self.tw_worker.take() {
            w.await;
        }
    }

    /// graceful shutdown as `command::agent::run` does: trip the tripwire, await the handles, wait for
    /// all counted tasks
    pub async fn stop(mut self) {
        let _ = self.stop_in_place().await;
    }

    /// returns whether everything finished inside the ceilings
    pub async fn stop_in_place(&mut self) -> bool {
        let t0 = std::time::Instant::now();
        let timing = std::env::var_os("KVERIF_TIMING").is_some();
        let _ = self.tw_tx.send(()).await;
        if let Some(w) = self.tw_worker.take() {
            w.await;
        }
        let mut ok = true;
        for (i, h) in self.handles.drain(..).enumerate() {
            ok &= tokio::time::timeout(Duration::from_secs(10), h).await.is_ok();
            if timing {
                eprintln!("stop: handle {i} done at {:?}", t0.elapsed());
            }
        }
        // wind down subscriptions and update feeds as `command::agent::run` does, then wait for the counted
        // tasks; other nodes of the harness live in this process too, so "all done" means back to the count
        // that was there before this agent started
        self.agent.subs_manager().drop_handles().await;
        let deadline = tokio::time::Instant::now() + Duration::from_secs(60);
        while klukai_types::spawn::PENDING_HANDLES.load(std::sync::atomic::Ordering::SeqCst) > self.baseline_handles {
            if tokio::time::Instant::now() > deadline {
                ok = false;
                break;
            }
            tokio::time::sleep(Duration::from_millis(50)).await;
        }
        if timing {
            eprintln!("stop: counted tasks done at {:?}", t0.elapsed());
        }
        ok
    }
}

pub struct HttpResponse {
    pub status: u16,
    pub body: Vec<u8>,
}

/// one HTTP/1.1 request; for streaming endpoints only `max_body` bytes / `body_timeout` are read
pub async fn http(addr: SocketAddr, method: &str, path: &str, headers: &[(String, String)], body: Option<Vec<u8>>, body_timeout: Duration) -> SimResult<HttpResponse> {
    let client: Client<_, Full<Bytes>> = Client::builder(TokioExecutor::new()).build_http();
    let mut req = hyper::Request::builder().method(method).uri(format!("http://{addr}{path}"));
    for (k, v) in headers {
        req = req.header(k.as_str(), v.as_str());
    }
    let req = req.body(Full::new(Bytes::from(body.unwrap_or_default()))).map_err(|e| SimErr(format!("request: {e}")))?;
    let res = tokio::time::timeout(Duration::from_secs(30), client.request(req)).await.map_err(|_| SimErr("http request timed out".into()))?.map_err(|e| SimErr(format!("http: {e}")))?;
    let status = res.status().as_u16();
    let mut out = vec![];
    let mut body = res.into_body();
    let deadline = tokio::time::Instant::now() + body_timeout;
    loop {
        match tokio::time::timeout_at(deadline, body.frame()).await {
            Ok(Some(Ok(frame))) => {
                if let Some(d) = frame.data_ref() {
                    out.extend_from_slice(d);
                    if out.len() > 4 << 20 {
                        break;
                    }
                }
            }
            Ok(Some(Err(_))) | Ok(None) | Err(_) => break,
        }
    }
    Ok(HttpResponse { status, body: out })
}

/// a long-lived NDJSON response (subscriptions, update feeds): a reader task parses the lines as they come
pub struct NdjsonStream {
    pub status: u16,
    pub headers: Vec<(String, String)>,
    rx: mpsc::UnboundedReceiver<serde_json::Value>,
    task: JoinHandle<()>,
    /// lines that did not parse as JSON
    pub garbage: std::sync::Arc<std::sync::Mutex<Vec<String>>>,
    pub closed: std::sync::Arc<std::sync::atomic::AtomicBool>,
}

impl NdjsonStream {
    pub fn header(&self, name: &str) -> Option<&str> {
        self.headers.iter().find(|(k, _)| k.eq_ignore_ascii_case(name)).map(|(_, v)| v.as_str())
    }

    /// everything received so far
    pub fn drain(&mut self) -> Vec<serde_json::Value> {
        let mut out = vec![];
        while let Ok(v) = self.rx.try_recv() {
            out.push(v);
        }
        out
    }

    pub async fn next(&mut self, wait: Duration) -> Option<serde_json::Value> {
        tokio::time::timeout(wait, self.rx.recv()).await.ok().flatten()
    }

    pub fn is_closed(&self) -> bool {
        self.closed.load(std::sync::atomic::Ordering::SeqCst)
    }
}

impl Drop for NdjsonStream {
    fn drop(&mut self) {
        self.task.abort();
    }
}

pub async fn open_stream(addr: SocketAddr, method: &str, path: &str, headers: &[(String, String)], body: Option<Vec<u8>>) -> SimResult<NdjsonStream> {
    let client: Client<_, Full<Bytes>> = Client::builder(TokioExecutor::new()).build_http();
    let mut req = hyper::Request::builder().method(method).uri(format!("http://{addr}{path}"));
    for (k, v) in headers {
        req = req.header(k.as_str(), v.as_str());
    }
    let req = req.body(Full::new(Bytes::from(body.unwrap_or_default()))).map_err(|e| SimErr(format!("request: {e}")))?;
    let res = tokio::time::timeout(Duration::from_secs(30), client.request(req)).await.map_err(|_| SimErr("http request timed out".into()))?.map_err(|e| SimErr(format!("http: {e}")))?;
    let status = res.status().as_u16();
    let headers = res.headers().iter().map(|(k, v)| (k.to_string(), v.to_str().unwrap_or("").to_string())).collect();
    let (tx, rx) = mpsc::unbounded_channel();
    let garbage = std::sync::Arc::new(std::sync::Mutex::new(vec![]));
    let closed = std::sync::Arc::new(std::sync::atomic::AtomicBool::new(false));
    let task = tokio::spawn({
        let garbage = garbage.clone();
        let closed = closed.clone();
        async move {
            let mut body = res.into_body();
            let mut buf: Vec<u8> = vec![];
            loop {
                match body.frame().await {
                    Some(Ok(frame)) => {
                        if let Some(d) = frame.data_ref() {
                            buf.extend_from_slice(d);
                            while let Some(pos) = buf.iter().position(|b| *b == b'\n') {
                                let line: Vec<u8> = buf.drain(..=pos).collect();
                                let line = &line[..line.len() - 1];
                                if line.is_empty() {
                                    continue;
                                }
                                match serde_json::from_slice::<serde_json::Value>(line) {
                                    Ok(v) => {
                                        if tx.send(v).is_err() {
                                            return;
                                        }
                                    }
                                    Err(_) => garbage.lock().unwrap().push(String::from_utf8_lossy(line).to_string()),
                                }
                            }
                        }
                    }
                    _ => break,
                }
            }
            if !buf.is_empty() {
                match serde_json::from_slice::<serde_json::Value>(&buf) {
                    Ok(v) => {
                        let _ = tx.send(v);
                    }
                    Err(_) => garbage.lock().unwrap().push(String::from_utf8_lossy(&buf).to_string()),
                }
            }
            closed.store(true, std::sync::atomic::Ordering::SeqCst);
        }
    });
    Ok(NdjsonStream { status, headers, rx, task, garbage, closed })
}

/// digest of everything a "read" endpoint must not change: user tables, cr-sqlite's own tables and
/// corrosion's bookkeeping tables
pub fn db_digest(path: &Path) -> SimResult<String> {
    let conn = rusqlite::Connection::open_with_flags(path, rusqlite::OpenFlags::SQLITE_OPEN_READ_ONLY)?;
    let mut names: Vec<String> = conn
        .prepare("SELECT name FROM sqlite_schema WHERE type = 'table' AND name NOT LIKE 'sqlite_%' ORDER BY name")?
        .query_map([], |r| r.get(0))?
        .collect::<rusqlite::Result<_>>()?;
    names.retain(|n| n != "__corro_members");
    let mut h = seahash::SeaHasher::new();
    use std::hash::Hasher;
    let schema: Vec<String> = conn.prepare("SELECT coalesce(sql,'') FROM sqlite_schema ORDER BY name")?.query_map([], |r| r.get(0))?.collect::<rusqlite::Result<_>>()?;
    for s in schema {
        h.write(s.as_bytes());
    }
    for n in names {
        h.write(n.as_bytes());
        let mut st = match conn.prepare(&format!("SELECT * FROM \"{n}\" ORDER BY 1, 2, 3")) {
            Ok(s) => s,
            Err(_) => match conn.prepare(&format!("SELECT * FROM \"{n}\" ORDER BY 1")) {
                Ok(s) => s,
                Err(_) => continue,
            },
        };
        let cols = st.column_count();
        let mut rows = st.query([])?;
        while let Some(r) = rows.next()? {
            for i in 0..cols {
                let v: rusqlite::types::Value = r.get(i)?;
                h.write(format!("{v:?}|").as_bytes());
            }
            h.write(b"\n");
        }
    }
    let uv: i64 = conn.query_row("PRAGMA user_version", [], |r| r.get(0))?;
    h.write(&uv.to_le_bytes());
    Ok(format!("{:016x}", h.finish()))
}
