//! kverif – property-based checks for beanpuppy/corrosion (klukai).
//!
//!   kverif run <PROP> --tier quick|thorough --seed N --worker I --workers N --out FILE [--scale F] [--only SUB]
//!   kverif replay <PROP> <replay.json>
//!
//! The python driver `/verif/check` builds this binary, fans out workers, merges reports,
//! writes the evidence file and prints VIOLATION / KNOWN-FINDING lines.

#![feature(alloc_error_hook)]

mod alloc;
mod common;
mod live;
mod subs;
mod c04b;
mod c12b;
mod c18b;
mod sim;
mod world;

use std::{collections::BTreeSet, path::PathBuf};

use common::{Ctx, Report, Tier};

#[global_allocator]
static GLOBAL: alloc::Tracking = alloc::Tracking;

/// one line per property module: `run(ctx, rep)` and `replay(sub, case)`
macro_rules! properties {
    ($($id:literal => $m:ident),* $(,)?) => {
        $(mod $m;)*
        fn dispatch_run(ctx: &Ctx, rep: &mut Report) {
            match ctx.prop.as_str() {
                $($id => $m::run(ctx, rep),)*
                other => {
                    eprintln!("unknown property {other}");
                    std::process::exit(2);
                }
            }
        }
        fn dispatch_replay(prop: &str, sub: &str, case: &serde_json::Value) -> Result<common::CaseInfo, common::Fail> {
            match prop {
                $($id => $m::replay(sub, case),)*
                other => {
                    eprintln!("unknown property {other}");
                    std::process::exit(2);
                }
            }
        }
    };
}

properties! {
    "C01" => c01,
    "C02" => c02,
    "C03" => c03,
    "C04" => c04,
    "C05" => c05,
    "C06" => c06,
    "C07" => c07,
    "C08" => c08,
    "C09" => c09,
    "C10" => c10,
    "C11" => c11,
    "C12" => c12,
    "C13" => c13,
    "C14" => c14,
    "C15" => c15,
    "C16" => c16,
    "C17" => c17,
    "C18" => c18,
    "C19" => c19,
    "C20" => c20,
}

fn usage() -> ! {
    eprintln!("usage: kverif run <PROP> --tier T --seed N --worker I --workers N --out FILE | kverif replay <PROP> <file>");
    std::process::exit(2)
}

fn load_known(prop: &str) -> BTreeSet<String> {
    let path = std::env::var("KVERIF_KNOWN").unwrap_or_else(|_| "/verif/known_findings.json".into());
    let mut out = BTreeSet::new();
    if let Ok(s) = std::fs::read_to_string(&path) {
        if let Ok(v) = serde_json::from_str::<serde_json::Value>(&s) {
            if let Some(arr) = v["findings"].as_array() {
                for f in arr {
                    if f["property"] == prop && f["status"] == "known" {
                        if let Some(id) = f["id"].as_str() {
                            out.insert(id.to_string());
                        }
                    }
                }
            }
        }
    }
    out
}

fn main() {
    let args: Vec<String> = std::env::args().collect();
    if let Ok(filter) = std::env::var("KVERIF_LOG") {
        // debugging aid: the agent's own log on stderr, e.g. KVERIF_LOG=klukai_agent=debug
        let _ = tracing_subscriber::fmt().with_env_filter(tracing_subscriber::EnvFilter::new(filter)).with_writer(std::io::stderr).try_init();
    }
    if args.len() >= 6 && args[1] == "c19-reader" {
        // helper process of C19: a database reader that is a process of its own
        std::process::exit(c19::reader_main(&args[2..]));
    }
    if args.len() >= 5 && args[1] == "c09-corpus" {
        // seed corpus for the libFuzzer targets: kverif c09-corpus <dir> <n> <seed>
        let n = c09::write_corpus(std::path::Path::new(&args[2]), args[3].parse().unwrap_or(200), args[4].parse().unwrap_or(1)).expect("write corpus");
        println!("wrote {n} corpus files");
        return;
    }
    if args.len() < 3 {
        usage();
    }
    let cmd = args[1].as_str();
    let prop = args[2].to_uppercase();
    match cmd {
        "run" => {
            let mut tier = Tier::Quick;
            let mut seed = 0u64;
            let mut worker = 0u32;
            let mut workers = 1u32;
            let mut out = PathBuf::from("/dev/null");
            let mut scale = 1.0f64;
            let mut only = None;
            let mut i = 3;
            while i < args.len() {
                let v = args.get(i + 1).cloned().unwrap_or_default();
                match args[i].as_str() {
                    "--tier" => tier = if v == "thorough" { Tier::Thorough } else { Tier::Quick },
                    "--seed" => seed = v.parse().unwrap_or(0),
                    "--worker" => worker = v.parse().unwrap(),
                    "--workers" => workers = v.parse().unwrap(),
                    "--out" => out = PathBuf::from(&v),
                    "--scale" => scale = v.parse().unwrap(),
                    "--only" => only = Some(v.clone()),
                    _ => usage(),
                }
                i += 2;
            }
            let work = out.with_extension("work");
            let _ = std::fs::create_dir_all(&work);
            let ctx = Ctx { prop: prop.clone(), tier, seed, worker, workers, out, scale, work: work.clone(), known: load_known(&prop), only };
            let mut rep = Report::default();
            let t0 = std::time::Instant::now();
            dispatch_run(&ctx, &mut rep);
            rep.write(&ctx, t0.elapsed().as_secs_f64());
            let _ = std::fs::remove_dir_all(&work);
        }
        "replay" => {
            let file = args.get(3).cloned().unwrap_or_else(|| usage());
            let v: serde_json::Value = serde_json::from_str(&std::fs::read_to_string(&file).expect("read replay")).expect("parse replay");
            let sub = v["sub"].as_str().unwrap_or("").to_string();
            let res = dispatch_replay(&prop, &sub, &v["case"]);
            match res {
                Ok(_) => {
                    println!("REPLAY-PASS property={prop} sub={sub}");
                }
                Err(f) if f.clause == "infra" => {
                    println!("REPLAY-INFRA property={prop} sub={sub} msg={}", f.msg);
                    std::process::exit(2);
                }
                Err(f) => {
                    println!("REPLAY-FAIL property={prop} sub={sub} clause={} finding={:?} msg={}", f.clause, f.finding, f.msg);
                    std::process::exit(1);
                }
            }
        }
        _ => usage(),
    }
}
