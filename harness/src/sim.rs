#![allow(dead_code)]
//! E2 – deterministic in-process cluster simulator.
//!
//! Nodes are created with the real `klukai_agent::agent::setup()` (real SQLite file, cr-sqlite
//! extension, pools, bookkeeping) but none of the background loops is started: the harness owns the
//! receiving ends of the agent's channels and decides when a message is delivered, to whom, in which
//! batch, and when the apply / clear / sync steps run.

use std::{
    collections::{BTreeMap, BTreeSet},
    ops::RangeInclusive,
    path::{Path, PathBuf},
    time::{Duration, Instant},
};

use axum::Extension;
use klukai_agent::{
    agent::{
        AgentOptions, process_multiple_changes, setup,
        util::{clear_buffered_meta_loop, process_fully_buffered_changes},
    },
    api::{
        peer::verif_hooks,
        public::{TimeoutParams, api_v1_db_schema, api_v1_transactions},
    },
};
use klukai_types::{
    actor::ActorId,
    agent::{Agent, BookedVersions, Bookie},
    api::{ExecResult, SqliteValue, Statement},
    base::{CrsqlDbVersion, CrsqlSeq},
    broadcast::{BroadcastInput, BroadcastV1, ChangeSource, ChangeV1, Changeset},
    change::Change,
    channel::{CorroReceiver, CorroSender, bounded},
    config::Config,
    sqlite::CrConn,
    sync::{SyncMessage, SyncMessageV1, SyncNeedV1, SyncStateV1, generate_sync},
    tripwire::Tripwire,
};
use rangemap::RangeInclusiveSet;
use serde::{Deserialize, Serialize};

pub const SCHEMA: &str = r#"
CREATE TABLE kv (id INTEGER NOT NULL PRIMARY KEY, a TEXT NOT NULL DEFAULT '', b INTEGER NOT NULL DEFAULT 0);
CREATE TABLE pair (k1 BLOB NOT NULL, k2 TEXT NOT NULL, v TEXT, PRIMARY KEY (k1, k2));
CREATE TABLE big (id INTEGER NOT NULL PRIMARY KEY, payload TEXT NOT NULL DEFAULT '');
"#;

pub const TABLES: [&str; 3] = ["kv", "pair", "big"];
pub const KV_KEYS: [i64; 6] = [0, 1, 127, 128, 255, 256];
pub const BIG_KEYS: [i64; 3] = [1, 2, 300];

pub fn scratch_root() -> PathBuf {
    if let Some(p) = std::env::var_os("KVERIF_TMP") {
        return PathBuf::from(p);
    }
    let shm = Path::new("/dev/shm");
    if shm.is_dir() { shm.join("kverif") } else { PathBuf::from("/verif/work/tmp") }
}

pub fn new_runtime(workers: usize) -> tokio::runtime::Runtime {
    tokio::runtime::Builder::new_multi_thread().worker_threads(workers).enable_all().build().expect("tokio runtime")
}

#[derive(Debug)]
pub struct SimErr(pub String);
impl<E: std::fmt::Display> From<E> for SimErr {
    fn from(e: E) -> Self {
        SimErr(e.to_string())
    }
}
pub type SimResult<T> = Result<T, SimErr>;

pub struct SimNode {
    pub idx: usize,
    pub agent: Agent,
    pub bookie: Bookie,
    pub rx_bcast: CorroReceiver<BroadcastInput>,
    pub rx_apply: CorroReceiver<(ActorId, CrsqlDbVersion)>,
    pub rx_clear: CorroReceiver<(ActorId, RangeInclusive<CrsqlDbVersion>)>,
    pub clear_tx: CorroSender<(ActorId, RangeInclusive<CrsqlDbVersion>)>,
    pub dir: PathBuf,
    /// apply triggers drained from rx_apply and not yet executed
    pub pending_apply: BTreeSet<(ActorId, u64)>,
    /// every apply trigger ever seen
    pub triggers_seen: BTreeSet<(ActorId, u64)>,
    /// own broadcast chunks captured from rx_bcast, by version
    pub bcast_buf: BTreeMap<u64, Vec<ChangeV1>>,
    pub bcast_other: Vec<ChangeV1>,
    /// receiving end of the ingest channel (taken by checks that run the real handle_changes loop)
    pub rx_changes: Option<CorroReceiver<(ChangeV1, ChangeSource)>>,
    _keep: Box<dyn std::any::Any + Send>,
}

pub fn node_config(dir: &Path) -> Config {
    Config::builder()
        .db_path(dir.join("corrosion.db").display().to_string())
        .gossip_addr("127.0.0.1:0".parse().unwrap())
        .api_addr("127.0.0.1:0".parse().unwrap())
        .admin_path(dir.join("admin.sock").display().to_string())
        .build()
        .expect("config")
}

impl SimNode {
    pub async fn new(idx: usize, dir: PathBuf) -> SimResult<Self> {
        Self::with_config(idx, dir.clone(), node_config(&dir)).await
    }

    pub async fn with_config(idx: usize, dir: PathBuf, conf: Config) -> SimResult<Self> {
        Self::with_config_schema(idx, dir, conf, Some(SCHEMA)).await
    }

    pub async fn with_config_schema(idx: usize, dir: PathBuf, conf: Config, schema: Option<&str>) -> SimResult<Self> {
        std::fs::create_dir_all(&dir)?;
        let (tripwire, tw_worker, tw_tx) = Tripwire::new_simple();
        let (agent, opts) = setup(conf, tripwire).await.map_err(|e| SimErr(format!("setup: {e}")))?;
        let AgentOptions {
            lock_registry,
            gossip_server_endpoint,
            transport,
            api_listeners,
            rx_bcast,
            rx_apply,
            rx_clear_buf,
            rx_changes,
            rx_foca,
            rtt_rx,
            subs_manager,
            subs_bcast_cache,
            updates_bcast_cache,
            tripwire,
        } = opts;
        // as run_root::run does
        let bookie = Bookie::new_with_registry(Default::default(), lock_registry);
        {
            let mut w = bookie.write::<&str, _>("init", None).await;
            w.insert(agent.actor_id(), agent.booked().clone());
        }
        // make sure the own bookkeeping finished loading
        {
            let _ = agent.booked().read::<&str, _>("sim-init", None).await;
        }
        let (clear_tx, clear_rx) = bounded(1024, "sim_clear");
        tokio::spawn(clear_buffered_meta_loop(agent.clone(), clear_rx));
        if let Some(schema) = schema {
            let (status, body) = api_v1_db_schema(Extension(agent.clone()), axum::Json(vec![schema.to_string()])).await;
            if status != hyper::StatusCode::OK {
                return Err(SimErr(format!("schema: {status} {:?}", body.0)));
            }
        }
        let keep: Box<dyn std::any::Any + Send> = Box::new((
            gossip_server_endpoint,
            transport,
            api_listeners,
            rx_foca,
            rtt_rx,
            subs_manager,
            subs_bcast_cache,
            updates_bcast_cache,
            tripwire,
            tw_worker,
            tw_tx,
        ));
        Ok(SimNode { idx, agent, bookie, rx_bcast, rx_apply, rx_clear: rx_clear_buf, clear_tx, dir, pending_apply: Default::default(), triggers_seen: Default::default(), bcast_buf: Default::default(), bcast_other: vec![], rx_changes: Some(rx_changes), _keep: keep })
    }

    pub fn actor(&self) -> ActorId {
        self.agent.actor_id()
    }

    /// Copy the database files as a process crash would leave them (db + wal; the harness is between
    /// two commits, no writer is active).
    pub fn crash_image(&self, to: &Path) -> SimResult<()> {
        std::fs::create_dir_all(to)?;
        for f in ["corrosion.db", "corrosion.db-wal"] {
            let src = self.dir.join(f);
            if src.exists() {
                std::fs::copy(&src, to.join(f))?;
            }
        }
        Ok(())
    }

    /// Re-open a crash image as a harness-driven node.  `setup()` is the real code; the per-actor
    /// bookkeeping reload that `run_root::run` performs is replicated here (the real reload path is
    /// checked separately through `start_with_config`, see C06).
    pub async fn reopen(idx: usize, dir: PathBuf) -> SimResult<Self> {
        Self::reopen_schema(idx, dir, Some(SCHEMA)).await
    }

    pub async fn reopen_schema(idx: usize, dir: PathBuf, schema: Option<&str>) -> SimResult<Self> {
        let mut node = Self::with_config_schema(idx, dir.clone(), node_config(&dir), schema).await?;
        let actors: Vec<ActorId> = {
            let conn = node.agent.pool().read().await?;
            tokio::task::block_in_place(|| {
                conn.prepare("SELECT site_id FROM crsql_site_id WHERE ordinal > 0 UNION SELECT DISTINCT site_id FROM __corro_seq_bookkeeping")?
                    .query_map([], |r| r.get(0))?
                    .collect::<rusqlite::Result<Vec<ActorId>>>()
            })?
        };
        for a in actors {
            if a == node.actor() {
                continue;
            }
            let bv = node.reloaded(a).await?;
            for (v, p) in bv.partials.iter() {
                if p.seqs.gaps(&(CrsqlSeq(0)..=p.last_seq)).next().is_none() {
                    node.pending_apply.insert((a, v.0));
                    node.triggers_seen.insert((a, v.0));
                }
            }
            node.bookie.write::<&str, _>("reopen", None).await.replace_actor(a, bv);
        }
        Ok(node)
    }

    /// run one write request through the real HTTP handler
    pub async fn transact(&self, stmts: Vec<Statement>) -> (u16, Option<u64>, Vec<ExecResult>) {
        let (status, body) = api_v1_transactions(Extension(self.agent.clone()), axum::extract::Query(TimeoutParams { timeout: None }), axum::extract::Json(stmts)).await;
        (status.as_u16(), body.0.version, body.0.results)
    }

    /// (last_seq, complete ordered change list) of one of our own versions, straight from cr-sqlite
    pub async fn own_version_changes(&self, version: u64) -> SimResult<Vec<Change>> {
        let conn = self.agent.pool().read().await?;
        let actor = self.actor();
        tokio::task::block_in_place(|| {
            let mut st = conn.prepare_cached(
                r#"SELECT "table", pk, cid, val, col_version, db_version, seq, site_id, cl FROM crsql_changes WHERE site_id = ? AND db_version = ? ORDER BY seq ASC"#,
            )?;
            let rows = st.query_map(rusqlite::params![actor, version], klukai_types::change::row_to_change)?.collect::<rusqlite::Result<Vec<_>>>()?;
            Ok(rows)
        })
    }

    /// move everything queued on rx_bcast into the per-version buffer
    pub fn pump_bcast(&mut self) {
        while let Ok(m) = self.rx_bcast.try_recv() {
            self.buffer_bcast(m);
        }
    }

    fn buffer_bcast(&mut self, m: BroadcastInput) {
        let (BroadcastInput::AddBroadcast(BroadcastV1::Change(c)) | BroadcastInput::Rebroadcast(BroadcastV1::Change(c))) = m;
        match &c.changeset {
            Changeset::Full { version, .. } if c.actor_id == self.agent.actor_id() => self.bcast_buf.entry(version.0).or_default().push(c),
            _ => self.bcast_other.push(c),
        }
    }

    /// collect the broadcast chunks of own `version` until they tile 0..=last_seq (the given one, or the
    /// one the chunks declare); positive polling with a generous ceiling
    pub async fn collect_broadcast(&mut self, version: u64, last_seq: Option<u64>) -> SimResult<Vec<ChangeV1>> {
        let deadline = Instant::now() + Duration::from_secs(20);
        loop {
            self.pump_bcast();
            if let Some(chunks) = self.bcast_buf.get(&version) {
                let mut covered = RangeInclusiveSet::new();
                let mut declared = None;
                for c in chunks {
                    if let Changeset::Full { seqs, last_seq, .. } = &c.changeset {
                        covered.insert(seqs.start().0..=seqs.end().0);
                        declared = Some(last_seq.0);
                    }
                }
                let target = last_seq.or(declared);
                if let Some(t) = target {
                    if covered.gaps(&(0..=t)).next().is_none() {
                        return Ok(self.bcast_buf.remove(&version).unwrap());
                    }
                }
            }
            let left = deadline.saturating_duration_since(Instant::now());
            if left.is_zero() {
                return Err(SimErr(format!("broadcast chunks of v{version} did not tile 0..={last_seq:?} within 20s: got {:?}", self.bcast_buf.get(&version).map(|v| v.iter().map(cs_brief).collect::<Vec<_>>()))));
            }
            match tokio::time::timeout(left.min(Duration::from_millis(50)), self.rx_bcast.recv()).await {
                Ok(Some(m)) => self.buffer_bcast(m),
                Ok(None) => return Err(SimErr("rx_bcast closed".into())),
                Err(_) => {}
            }
        }
    }

    /// anything announced that nobody collected (must be nothing after a failed / no-op request)
    pub async fn stray_broadcasts(&mut self, wait: Duration) -> Vec<ChangeV1> {
        let deadline = Instant::now() + wait;
        loop {
            self.pump_bcast();
            if Instant::now() >= deadline {
                break;
            }
            tokio::time::sleep(Duration::from_millis(2)).await;
        }
        let mut out: Vec<ChangeV1> = std::mem::take(&mut self.bcast_other);
        for (_, mut v) in std::mem::take(&mut self.bcast_buf) {
            out.append(&mut v);
        }
        out
    }

    /// hand a batch to the real ingest function (what handle_changes does with a batch)
    pub async fn deliver(&self, msgs: Vec<ChangeV1>, src: ChangeSource) -> SimResult<()> {
        let now = Instant::now();
        let batch = msgs.into_iter().map(|c| (c, src, now)).collect();
        process_multiple_changes(self.agent.clone(), self.bookie.clone(), batch, Duration::from_secs(60)).await.map_err(|e| SimErr(format!("process_multiple_changes: {e}")))
    }

    pub fn drain_apply_now(&mut self) {
        while let Ok((a, v)) = self.rx_apply.try_recv() {
            self.pending_apply.insert((a, v.0));
            self.triggers_seen.insert((a, v.0));
        }
    }

    /// wait (positive polling, generous ceiling) until a trigger for (actor, version) showed up
    pub async fn wait_trigger(&mut self, actor: ActorId, version: u64, ceiling: Duration) -> bool {
        let deadline = Instant::now() + ceiling;
        loop {
            self.drain_apply_now();
            if self.triggers_seen.contains(&(actor, version)) {
                return true;
            }
            if Instant::now() >= deadline {
                return false;
            }
            tokio::time::sleep(Duration::from_millis(1)).await;
        }
    }

    pub async fn apply(&mut self, actor: ActorId, version: u64) -> SimResult<bool> {
        self.pending_apply.remove(&(actor, version));
        process_fully_buffered_changes(&self.agent, &self.bookie, actor, CrsqlDbVersion(version), Duration::from_secs(60)).await.map_err(|e| SimErr(format!("process_fully_buffered_changes: {e}")))
    }

    /// run the real clear_buffered_meta_loop on everything queued on rx_clear_buf and wait until
    /// the rows are gone (positive polling)
    pub async fn clear_meta(&mut self) -> SimResult<usize> {
        let mut n = 0;
        let mut items = vec![];
        while let Ok(item) = self.rx_clear.try_recv() {
            items.push(item);
        }
        for (actor, versions) in items {
            n += 1;
            self.clear_tx.send((actor, versions.clone())).await.map_err(|e| SimErr(format!("clear_tx: {e}")))?;
            let deadline = Instant::now() + Duration::from_secs(20);
            loop {
                let left: i64 = {
                    let conn = self.agent.pool().read().await?;
                    tokio::task::block_in_place(|| {
                        conn.query_row(
                            "SELECT (SELECT count(*) FROM __corro_seq_bookkeeping WHERE site_id = ?1 AND db_version BETWEEN ?2 AND ?3) + (SELECT count(*) FROM __corro_buffered_changes WHERE site_id = ?1 AND db_version BETWEEN ?2 AND ?3)",
                            rusqlite::params![actor, versions.start(), versions.end()],
                            |r| r.get(0),
                        )
                    })?
                };
                if left == 0 {
                    break;
                }
                if Instant::now() >= deadline {
                    return Err(SimErr(format!("clear_buffered_meta did not clear {actor} {versions:?} within 20s ({left} rows left)")));
                }
                tokio::time::sleep(Duration::from_millis(2)).await;
            }
        }
        Ok(n)
    }

    pub async fn sync_state(&self) -> SyncStateV1 {
        generate_sync(&self.bookie, self.actor()).await
    }

    /// versions the node itself regards as completely buffered (by the last_seq it kept) and not applied yet:
    /// it owes an apply trigger for each (sent from a spawned task).  Used to drive the schedule only.
    pub async fn complete_partials(&self) -> Vec<(ActorId, u64)> {
        let booked: Vec<(ActorId, klukai_types::agent::Booked)> = { self.bookie.read::<&str, _>("sched", None).await.iter().map(|(a, b)| (*a, b.clone())).collect() };
        let mut out = vec![];
        for (a, b) in booked {
            let r = b.read::<&str, _>("sched", None).await;
            for (v, p) in r.partials.iter() {
                if p.seqs.gaps(&(CrsqlSeq(0)..=p.last_seq)).next().is_none() {
                    out.push((a, v.0));
                }
            }
        }
        out.sort();
        out
    }

    /// in-memory partial versions the node keeps for `actor`, for traces
    pub async fn partials_repr(&self, actor: ActorId) -> String {
        let booked = { self.bookie.read::<&str, _>("trace", None).await.get(&actor).cloned() };
        match booked {
            Some(b) => {
                let r = b.read::<&str, _>("trace", None).await;
                format!("max {:?} needed {:?} partials {:?}", r.last(), r.needed().iter().collect::<Vec<_>>(), r.partials.iter().map(|(v, p)| format!("v{} seqs {:?} last {}", v.0, p.seqs.iter().map(|s| (s.start().0, s.end().0)).collect::<Vec<_>>(), p.last_seq.0)).collect::<Vec<_>>())
            }
            None => "unknown actor".into(),
        }
    }

    /// what a restart would load for `actor` (BookedVersions::from_conn on a fresh read connection)
    pub async fn reloaded(&self, actor: ActorId) -> SimResult<BookedVersions> {
        let conn = self.agent.pool().read().await?;
        Ok(tokio::task::block_in_place(|| BookedVersions::from_conn(&conn, actor))?)
    }

    /// serve a sync request through the real process_sync / handle_need
    pub async fn serve(&self, req: Vec<(ActorId, Vec<SyncNeedV1>)>) -> SimResult<Vec<ChangeV1>> {
        let (tx_need, rx_need) = tokio::sync::mpsc::channel(1024);
        let (tx, mut rx) = tokio::sync::mpsc::channel::<SyncMessage>(100_000);
        tx_need.send(req).await.map_err(|_| SimErr("need channel".into()))?;
        drop(tx_need);
        let pool = self.agent.pool().clone();
        let bookie = self.bookie.clone();
        let h = tokio::spawn(async move { verif_hooks::process_sync(pool, bookie, tx, rx_need).await });
        let mut out = vec![];
        while let Some(m) = rx.recv().await {
            if let SyncMessage::V1(SyncMessageV1::Changeset(c)) = m {
                out.push(c);
            } else {
                return Err(SimErr(format!("process_sync produced a non-changeset message: {m:?}")));
            }
        }
        h.await.map_err(|e| SimErr(format!("process_sync join: {e}")))?.map_err(|e| SimErr(format!("process_sync: {e}")))?;
        Ok(out)
    }

    pub async fn dump_tables(&self) -> SimResult<BTreeMap<String, Vec<Vec<SqliteValue>>>> {
        let conn = self.agent.pool().read().await?;
        tokio::task::block_in_place(|| dump_tables_conn(&conn))
    }

    pub async fn dump_cells(&self) -> SimResult<Vec<Cell>> {
        let conn = self.agent.pool().read().await?;
        tokio::task::block_in_place(|| dump_cells_conn(&conn))
    }

    /// what is left in the two buffer tables, for messages
    pub async fn buffer_leftovers(&self) -> SimResult<String> {
        let conn = self.agent.pool().read().await?;
        tokio::task::block_in_place(|| {
            let seqs: Vec<String> = conn
                .prepare("SELECT hex(site_id), db_version, start_seq, end_seq, last_seq FROM __corro_seq_bookkeeping ORDER BY 1,2,3")?
                .query_map([], |r| Ok(format!("{}.. v{} seqs {}..={} last {}", &r.get::<_, String>(0)?[..6], r.get::<_, i64>(1)?, r.get::<_, i64>(2)?, r.get::<_, i64>(3)?, r.get::<_, i64>(4)?)))?
                .collect::<rusqlite::Result<_>>()?;
            let rows: Vec<String> = conn
                .prepare(r#"SELECT hex(site_id), db_version, seq, "table" FROM __corro_buffered_changes ORDER BY 1,2,3"#)?
                .query_map([], |r| Ok(format!("{}.. v{} seq {} {}", &r.get::<_, String>(0)?[..6], r.get::<_, i64>(1)?, r.get::<_, i64>(2)?, r.get::<_, String>(3)?)))?
                .collect::<rusqlite::Result<_>>()?;
            Ok(format!("seq records {seqs:?}, buffered rows {rows:?}"))
        })
    }

    pub async fn count(&self, sql: &str) -> SimResult<i64> {
        let conn = self.agent.pool().read().await?;
        Ok(tokio::task::block_in_place(|| conn.query_row(sql, [], |r| r.get(0)))?)
    }
}

#[derive(Debug, Clone, PartialEq, Serialize, Deserialize)]
pub struct Cell {
    pub table: String,
    pub pk: Vec<u8>,
    pub cid: String,
    pub val: String,
    pub col_version: i64,
    pub cl: i64,
}

pub fn val_repr(v: &SqliteValue) -> String {
    match v {
        SqliteValue::Null => "NULL".into(),
        SqliteValue::Integer(i) => format!("i{i}"),
        SqliteValue::Real(r) => format!("r{}", r.0),
        SqliteValue::Text(t) => {
            if t.len() > 40 {
                format!("t{}..({} bytes,h{:x})", &t[..24], t.len(), seahash::hash(t.as_bytes()))
            } else {
                format!("t{t}")
            }
        }
        SqliteValue::Blob(b) => format!("x{}", hex::encode(b)),
    }
}

pub fn dump_tables_conn(conn: &rusqlite::Connection) -> SimResult<BTreeMap<String, Vec<Vec<SqliteValue>>>> {
    let mut out = BTreeMap::new();
    for t in TABLES {
        let mut st = conn.prepare(&format!("SELECT * FROM {t} ORDER BY 1, 2"))?;
        let n = st.column_count();
        let rows = st
            .query_map([], |r| (0..n).map(|i| r.get::<_, SqliteValue>(i)).collect::<rusqlite::Result<Vec<_>>>())?
            .collect::<rusqlite::Result<Vec<_>>>()?;
        out.insert(t.to_string(), rows);
    }
    Ok(out)
}

pub fn dump_cells_conn(conn: &rusqlite::Connection) -> SimResult<Vec<Cell>> {
    let mut st = conn.prepare(r#"SELECT "table", pk, cid, val, col_version, cl FROM crsql_changes ORDER BY "table", pk, cid"#)?;
    let rows = st
        .query_map([], |r| {
            Ok(Cell { table: r.get(0)?, pk: r.get(1)?, cid: r.get(2)?, val: val_repr(&r.get::<_, SqliteValue>(3)?), col_version: r.get(4)?, cl: r.get(5)? })
        })?
        .collect::<rusqlite::Result<Vec<_>>>()?;
    Ok(rows)
}

pub fn tables_repr(t: &BTreeMap<String, Vec<Vec<SqliteValue>>>) -> String {
    let mut s = String::new();
    for (name, rows) in t {
        s.push_str(&format!("{name}:["));
        for r in rows {
            s.push('(');
            s.push_str(&r.iter().map(val_repr).collect::<Vec<_>>().join(","));
            s.push(')');
        }
        s.push_str("] ");
    }
    s
}

/// Reference replica: a bare cr-sqlite connection that is fed complete, unchunked transactions.
/// Shares no corrosion code (no chunking, buffering, bookkeeping, sync).
pub struct Reference {
    pub conn: CrConn,
}

impl Reference {
    pub fn new() -> SimResult<Self> {
        let conn = CrConn::init(rusqlite::Connection::open_in_memory()?)?;
        conn.execute_batch(SCHEMA)?;
        for t in TABLES {
            let _: Option<String> = conn.query_row("SELECT crsql_as_crr(?)", [t], |r| r.get(0)).ok();
        }
        let _: i64 = conn.query_row("SELECT crsql_config_set('merge-equal-values', 1)", [], |r| r.get(0))?;
        Ok(Reference { conn })
    }

    pub fn apply(&self, changes: &[Change], ts: klukai_types::broadcast::Timestamp) -> SimResult<()> {
        let tx = self.conn.unchecked_transaction()?;
        {
            let mut st = tx.prepare_cached(r#"INSERT INTO crsql_changes ("table", pk, cid, val, col_version, db_version, site_id, cl, seq, ts) VALUES (?,?,?,?,?,?,?,?,?,?)"#)?;
            for c in changes {
                st.execute(rusqlite::params![c.table.as_str(), c.pk, c.cid.as_str(), &c.val, c.col_version, c.db_version, &c.site_id, c.cl, c.seq, ts])?;
            }
        }
        tx.commit()?;
        Ok(())
    }

    pub fn tables(&self) -> SimResult<BTreeMap<String, Vec<Vec<SqliteValue>>>> {
        dump_tables_conn(&self.conn)
    }
    pub fn cells(&self) -> SimResult<Vec<Cell>> {
        dump_cells_conn(&self.conn)
    }
}

// ---------------------------------------------------------------------------------------------
// statements

#[derive(Debug, Clone, Serialize, Deserialize, PartialEq)]
pub enum Stmt {
    /// INSERT .. ON CONFLICT DO UPDATE of both columns
    UpsertKv { key: u8, tag: u16 },
    UpdateKvA { key: u8, tag: u16 },
    UpdateKvB { key: u8, tag: u16 },
    /// UPDATE kv SET b = ? (all rows)
    UpdateAllKvB { tag: u16 },
    DeleteKv { key: u8 },
    UpsertPair { k1: u8, k2: u8, tag: u16 },
    DeletePair { k1: u8, k2: u8 },
    /// payload of size_class*1500+300 bytes so that the real 8 KiB chunker splits the version
    UpsertBig { key: u8, size_class: u8, tag: u16 },
    DeleteBig { key: u8 },
    /// several rows in one statement: kv keys [0..n)
    MultiKv { n: u8, tag: u16 },
}

pub fn pair_k1(i: u8) -> Vec<u8> {
    match i % 3 {
        0 => vec![],
        1 => vec![0x7f],
        _ => vec![0xAB; 128],
    }
}
pub fn pair_k2(i: u8) -> &'static str {
    if i % 2 == 0 { "" } else { "k" }
}

/// unique, recognisable value written by (node, op index, statement index, tag)
pub fn text_val(node: usize, op: usize, si: usize, tag: u16) -> String {
    format!("n{node}o{op}s{si}t{tag}")
}
pub fn int_val(node: usize, op: usize, si: usize, tag: u16) -> i64 {
    ((node as i64 + 1) << 40) | ((op as i64) << 24) | ((si as i64) << 16) | tag as i64
}

pub fn to_statements(stmts: &[Stmt], node: usize, op: usize) -> Vec<Statement> {
    use klukai_types::api::SqliteParam as P;
    let mut out = vec![];
    for (si, s) in stmts.iter().enumerate() {
        let tv = |tag: u16| P::Text(text_val(node, op, si, tag).into());
        let iv = |tag: u16| P::Integer(int_val(node, op, si, tag));
        match s {
            Stmt::UpsertKv { key, tag } => out.push(Statement::WithParams(
                "INSERT INTO kv (id, a, b) VALUES (?, ?, ?) ON CONFLICT (id) DO UPDATE SET a = excluded.a, b = excluded.b".into(),
                vec![P::Integer(KV_KEYS[*key as usize % KV_KEYS.len()]), tv(*tag), iv(*tag)],
            )),
            Stmt::UpdateKvA { key, tag } => out.push(Statement::WithParams("UPDATE kv SET a = ? WHERE id = ?".into(), vec![tv(*tag), P::Integer(KV_KEYS[*key as usize % KV_KEYS.len()])])),
            Stmt::UpdateKvB { key, tag } => out.push(Statement::WithParams("UPDATE kv SET b = ? WHERE id = ?".into(), vec![iv(*tag), P::Integer(KV_KEYS[*key as usize % KV_KEYS.len()])])),
            Stmt::UpdateAllKvB { tag } => out.push(Statement::WithParams("UPDATE kv SET b = ?".into(), vec![iv(*tag)])),
            Stmt::DeleteKv { key } => out.push(Statement::WithParams("DELETE FROM kv WHERE id = ?".into(), vec![P::Integer(KV_KEYS[*key as usize % KV_KEYS.len()])])),
            Stmt::UpsertPair { k1, k2, tag } => out.push(Statement::WithParams(
                "INSERT INTO pair (k1, k2, v) VALUES (?, ?, ?) ON CONFLICT (k1, k2) DO UPDATE SET v = excluded.v".into(),
                vec![P::Blob(pair_k1(*k1).as_slice().into()), P::Text(pair_k2(*k2).into()), tv(*tag)],
            )),
            Stmt::DeletePair { k1, k2 } => out.push(Statement::WithParams("DELETE FROM pair WHERE k1 = ? AND k2 = ?".into(), vec![P::Blob(pair_k1(*k1).as_slice().into()), P::Text(pair_k2(*k2).into())])),
            Stmt::UpsertBig { key, size_class, tag } => {
                let mut payload = text_val(node, op, si, *tag);
                let target = (*size_class as usize % 5) * 1500 + 300;
                while payload.len() < target {
                    payload.push('.');
                }
                out.push(Statement::WithParams(
                    "INSERT INTO big (id, payload) VALUES (?, ?) ON CONFLICT (id) DO UPDATE SET payload = excluded.payload".into(),
                    vec![P::Integer(BIG_KEYS[*key as usize % BIG_KEYS.len()]), P::Text(payload.into())],
                ))
            }
            Stmt::DeleteBig { key } => out.push(Statement::WithParams("DELETE FROM big WHERE id = ?".into(), vec![P::Integer(BIG_KEYS[*key as usize % BIG_KEYS.len()])])),
            Stmt::MultiKv { n, tag } => {
                let n = (*n as usize % KV_KEYS.len()) + 1;
                let mut sql = String::from("INSERT INTO kv (id, a, b) VALUES ");
                let mut params = vec![];
                for k in 0..n {
                    if k > 0 {
                        sql.push_str(", ");
                    }
                    sql.push_str("(?, ?, ?)");
                    params.push(P::Integer(KV_KEYS[k]));
                    params.push(P::Text(format!("{}k{k}", text_val(node, op, si, *tag)).into()));
                    params.push(P::Integer(int_val(node, op, si, *tag) + (k as i64) * 1000));
                }
                sql.push_str(" ON CONFLICT (id) DO UPDATE SET a = excluded.a, b = excluded.b");
                out.push(Statement::WithParams(sql, params));
            }
        }
    }
    out
}

// ---------------------------------------------------------------------------------------------
// helpers over changesets

pub fn cs_brief(c: &ChangeV1) -> String {
    match &c.changeset {
        Changeset::Empty { versions, .. } => format!("Empty({}..={})", versions.start().0, versions.end().0),
        Changeset::EmptySet { versions, .. } => format!("EmptySet({versions:?})"),
        Changeset::Full { version, changes, seqs, last_seq, .. } => {
            format!("Full(v{} seqs {}..={} last {} n={} [{}])", version.0, seqs.start().0, seqs.end().0, last_seq.0, changes.len(), changes.iter().map(|c| c.seq.0.to_string()).collect::<Vec<_>>().join(","))
        }
    }
}

/// per (receiver, origin) set model of bookkeeping, updated from what the harness delivered
#[derive(Debug, Default, Clone)]
pub struct OriginModel {
    /// versions for which a complete changeset / Empty was processed, or that were applied from buffer
    pub held: BTreeSet<u64>,
    /// union of delivered seq ranges of incomplete chunks (only while the version was not held)
    pub partial: BTreeMap<u64, RangeInclusiveSet<u64>>,
    /// last_seq values declared by the chunks of a version
    pub last_seqs: BTreeMap<u64, BTreeSet<u64>>,
    pub max: u64,
    /// versions for which an apply step ran while their coverage was ambiguous: held or still partial
    pub undetermined: BTreeSet<u64>,
}

impl OriginModel {
    /// returns true if the version became completely covered by this delivery (partial path)
    pub fn on_deliver(&mut self, c: &Changeset) -> Option<u64> {
        self.on_deliver_from(c, None)
    }

    /// `pre`: the model as it was before the batch this message is part of.  The node decides whether it knows the
    /// versions of an Empty against its bookkeeping as of the start of the batch (what the batch brought is only
    /// committed to the in-memory view at its end); without a batch that is the current state.
    pub fn on_deliver_from(&mut self, c: &Changeset, pre: Option<&OriginModel>) -> Option<u64> {
        match c {
            Changeset::Empty { versions, .. } => {
                let vs = || (versions.start().0..=versions.end().0).filter(|v| *v != 0);
                self.max = self.max.max(versions.end().0);
                let (sure, maybe) = {
                    let p: &OriginModel = pre.unwrap_or(self);
                    (vs().all(|v| p.held.contains(&v) || p.covered(v)), vs().all(|v| p.held.contains(&v) || p.covered(v) || p.ambiguous(v)))
                };
                // A version that is completely buffered and only waits for its apply step counts as known.  The
                // node ignores an Empty *all* of whose versions it knows (BookedVersions::contains_all) and goes on
                // to apply what it has; an Empty with at least one unknown version is processed for its whole range,
                // and then the buffered chunks of the others go too (the supplier says they are empty by now).
                if sure {
                    return None;
                }
                // complete by one supplier's last_seq only: whether the node regards the version as known depends
                // on the declaration it kept - no demand about the buffered ones until an apply step settles it
                if maybe {
                    for v in vs() {
                        if !self.held.contains(&v) {
                            self.undetermined.insert(v);
                        }
                    }
                    return None;
                }
                for v in vs() {
                    self.held.insert(v);
                    self.partial.remove(&v);
                }
                None
            }
            Changeset::EmptySet { .. } => None,
            Changeset::Full { version, seqs, last_seq, changes, .. } => {
                let v = version.0;
                if seqs.end() < seqs.start() {
                    return None;
                }
                if self.held.contains(&v) {
                    return None;
                }
                self.max = self.max.max(v);
                if seqs.start().0 == 0 && seqs.end() == last_seq {
                    let _ = changes;
                    // A changeset that is complete by its own last_seq, while earlier chunks declared a
                    // larger one that is not covered yet (a relay reports the largest sequence still
                    // live at the relay): the node may apply it now, or keep waiting for the rest.
                    // Likewise if the chunks received so far already cover the version and only the
                    // (asynchronous) apply step is outstanding: the node may ignore the redundant
                    // changeset or apply it right away.  No demand is made about the version until an
                    // apply step ran with full coverage (see World::apply).
                    let has_partial_state = self.partial.contains_key(&v);
                    let same_last_seq = self.last_seqs.get(&v).is_none_or(|ls| ls.iter().all(|l| *l == last_seq.0));
                    let already_covered = self.covered(v);
                    if has_partial_state && (!same_last_seq || already_covered) {
                        self.partial.entry(v).or_default().insert(0..=last_seq.0);
                        self.last_seqs.entry(v).or_default().insert(last_seq.0);
                        self.undetermined.insert(v);
                        return None;
                    }
                    self.undetermined.remove(&v);
                    self.last_seqs.entry(v).or_default().insert(last_seq.0);
                    self.held.insert(v);
                    // buffered leftovers are scheduled for clearing by the agent; the version is held now
                    self.partial.remove(&v);
                    return None;
                }
                let before_complete = self.covered(v);
                let e = self.partial.entry(v).or_default();
                e.insert(seqs.start().0..=seqs.end().0);
                self.last_seqs.entry(v).or_default().insert(last_seq.0);
                let now_complete = self.covered(v);
                if now_complete && !before_complete { Some(v) } else { None }
            }
        }
    }

    /// the received chunks cover 0..=last_seq for *every* last_seq a supplier declared (suppliers may
    /// disagree: a relay reports the largest sequence still live at the relay)
    pub fn covered(&self, v: u64) -> bool {
        match (self.partial.get(&v), self.last_seqs.get(&v)) {
            (Some(p), Some(ls)) => ls.iter().all(|l| p.gaps(&(0..=*l)).next().is_none()),
            _ => false,
        }
    }

    /// covered for some declared last_seq but not for all: whether the version counts as complete
    /// depends on which declaration the node goes by; the oracles make no demand then
    pub fn ambiguous(&self, v: u64) -> bool {
        match (self.partial.get(&v), self.last_seqs.get(&v)) {
            (Some(p), Some(ls)) => !self.covered(v) && ls.iter().any(|l| p.gaps(&(0..=*l)).next().is_none()),
            _ => false,
        }
    }

    pub fn any_ambiguous(&self) -> bool {
        self.partial.keys().any(|v| self.ambiguous(*v)) || !self.undetermined.is_empty() || self.last_seqs.values().any(|ls| ls.len() > 1)
    }

    /// suppliers declared different last_seq values for this version (a relay or a later state of the
    /// origin reports the largest sequence still live): which rows become visible, and when, then
    /// depends on the order of arrival; the oracles make no demand about such a version
    pub fn l_conflict(&self, v: u64) -> bool {
        self.last_seqs.get(&v).is_some_and(|ls| ls.len() > 1)
    }

    pub fn on_applied(&mut self, v: u64) {
        self.held.insert(v);
        self.partial.remove(&v);
    }
}

/// compare the advertised state for one origin with the model; returns Err(clause, msg)
/// After a restart the head may have gone back over trailing versions that were held without leaving
/// data behind (they are "beyond its head" again): compare against the model cut at the advertised head.
pub fn check_advertised_after_restart(state: &SyncStateV1, origin: ActorId, m: &OriginModel, own: bool) -> Result<(), (String, String)> {
    let head = state.heads.get(&origin).map(|v| v.0).unwrap_or(0);
    if head < m.max && !own {
        // Everything above the rebuilt head is "beyond its head" again and will be asked for as a whole: a version
        // that was never received, one of which only chunks are buffered (the chunks stay buffered, the version is
        // requested again) and one that was held without leaving data.  A version whose data is stored cannot be
        // above the rebuilt head (the head is rebuilt from the stored data); that the data itself is still there is
        // what the visible-state comparison after the restart checks.
        let mut cut = m.clone();
        cut.max = head;
        cut.held.retain(|v| *v <= head);
        cut.partial.retain(|v, _| *v <= head);
        cut.last_seqs.retain(|v, _| *v <= head);
        cut.undetermined.retain(|v| *v <= head);
        return check_advertised(state, origin, &cut, own);
    }
    check_advertised(state, origin, m, own)
}

pub fn check_advertised(state: &SyncStateV1, origin: ActorId, m: &OriginModel, own: bool) -> Result<(), (String, String)> {
    let head = state.heads.get(&origin).map(|v| v.0).unwrap_or(0);
    if head != m.max {
        return Err(("head-is-max-seen".into(), format!("advertised head {head} but the newest version delivered is {}", m.max)));
    }
    let need: RangeInclusiveSet<u64> = state.need.get(&origin).map(|v| v.iter().map(|r| r.start().0..=r.end().0).collect()).unwrap_or_default();
    let pn = state.partial_need.get(&origin);
    // persisted/advertised need ranges must be canonical: sorted, disjoint, non-adjacent, inside 1..=head
    if let Some(ranges) = state.need.get(&origin) {
        let mut prev_end: Option<u64> = None;
        for r in ranges {
            if r.start().0 < 1 || r.end().0 > head || r.start() > r.end() {
                return Err(("need-inside-1..head".into(), format!("need range {}..={} outside 1..={head}", r.start().0, r.end().0)));
            }
            if let Some(pe) = prev_end {
                if r.start().0 <= pe + 1 {
                    return Err(("need-canonical".into(), format!("need ranges overlap or touch: ..={pe} then {}..", r.start().0)));
                }
            }
            prev_end = Some(r.end().0);
        }
    }
    for v in 1..=head {
        let in_need = need.contains(&v);
        let in_partial = pn.is_some_and(|p| p.contains_key(&CrsqlDbVersion(v)));
        if in_need && in_partial {
            return Err(("one-class-only".into(), format!("v{v} is listed both as needed and as partial")));
        }
        if m.undetermined.contains(&v) || m.ambiguous(v) || m.l_conflict(v) {
            continue;
        }
        if own {
            if in_need || in_partial {
                return Err(("never-a-gap-in-own-versions".into(), format!("own version v{v} listed as {}", if in_need { "needed" } else { "partial" })));
            }
            continue;
        }
        if m.held.contains(&v) {
            if in_need || in_partial {
                return Err((
                    "held-version-not-listed".into(),
                    format!("v{v} was stored by a complete changeset / applied but is advertised as {}", if in_need { "needed".to_string() } else { format!("partial missing {:?}", pn.unwrap()[&CrsqlDbVersion(v)]) }),
                ));
            }
        } else if let Some(p) = m.partial.get(&v) {
            if m.covered(v) {
                // completely buffered, not applied yet: held or (stale but harmless) nothing to request
                if in_need {
                    return Err(("buffered-version-not-needed".into(), format!("v{v} is completely buffered but advertised as needed")));
                }
                if in_partial {
                    return Err(("covered-partial-has-no-missing".into(), format!("v{v} is completely buffered but advertised as partial missing {:?}", pn.unwrap()[&CrsqlDbVersion(v)])));
                }
            } else {
                if !in_partial {
                    return Err((
                        "partial-version-listed-with-missing-ranges".into(),
                        format!("v{v} is partially received (have {p:?}, last_seq {:?}) but advertised as {}", m.last_seqs.get(&v), if in_need { "needed" } else { "held" }),
                    ));
                }
                let adv: Vec<(u64, u64)> = pn.unwrap()[&CrsqlDbVersion(v)].iter().map(|r| (r.start().0, r.end().0)).collect();
                let ok = m.last_seqs[&v].iter().any(|l| {
                    let want: Vec<(u64, u64)> = p.gaps(&(0..=*l)).map(|r| (*r.start(), *r.end())).collect();
                    want == adv
                });
                if !ok {
                    return Err(("partial-missing-ranges-exact".into(), format!("v{v}: advertised missing {adv:?}, received {p:?}, declared last_seq {:?}", m.last_seqs[&v])));
                }
            }
        } else if !in_need {
            return Err(("lacking-version-is-needed".into(), format!("v{v} was never delivered but is advertised as {}", if in_partial { "partial" } else { "held" })));
        }
    }
    Ok(())
}

pub fn ranges_u64(set: &RangeInclusiveSet<CrsqlDbVersion>) -> Vec<(u64, u64)> {
    set.iter().map(|r| (r.start().0, r.end().0)).collect()
}

pub fn seq(v: u64) -> CrsqlSeq {
    CrsqlSeq(v)
}
