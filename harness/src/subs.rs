#![allow(dead_code)]
//! Client-side model of a subscription stream (`QueryEvent` NDJSON) shared by C11, C12 and C13.

use std::collections::BTreeMap;

use serde_json::Value;

use crate::common::Fail;

#[derive(Debug, Default, Clone)]
pub struct SubModel {
    pub columns: Option<Vec<String>>,
    /// rowid -> cells
    pub rows: BTreeMap<u64, Value>,
    pub eoq: bool,
    /// change id carried by eoq / the last change event
    pub last_change: Option<u64>,
    pub changes_seen: usize,
    pub inserts: usize,
    pub updates: usize,
    pub deletes: usize,
    pub error: Option<String>,
    /// set when the stream is attached with skip_rows / from: rows are not known, only ids are checked
    pub ids_only: bool,
    pub log: Vec<String>,
}

impl SubModel {
    pub fn resuming(from: u64) -> Self {
        SubModel { ids_only: true, eoq: true, last_change: Some(from), ..Default::default() }
    }

    /// attached with skip_rows: no snapshot, the first change event sets the baseline
    pub fn skipping_rows() -> Self {
        SubModel { ids_only: true, eoq: true, last_change: None, ..Default::default() }
    }

    /// apply one event; Err = the stream itself is inconsistent
    pub fn apply(&mut self, ev: &Value) -> Result<(), Fail> {
        if self.log.len() < 400 {
            self.log.push(ev.to_string().chars().take(160).collect());
        }
        let obj = ev.as_object().ok_or_else(|| Fail::new("event-shape", format!("not an object: {ev}")))?;
        if let Some(cols) = obj.get("columns") {
            self.columns = Some(cols.as_array().map(|a| a.iter().map(|c| c.as_str().unwrap_or("").to_string()).collect()).unwrap_or_default());
            return Ok(());
        }
        if let Some(row) = obj.get("row") {
            let rowid = row.get(0).and_then(|v| v.as_u64()).ok_or_else(|| Fail::new("event-shape", format!("row without rowid: {ev}")))?;
            let cells = row.get(1).cloned().unwrap_or(Value::Null);
            if self.eoq {
                return Err(Fail::new("snapshot-then-changes", format!("row event after end-of-query: {ev}")));
            }
            if self.rows.insert(rowid, cells).is_some() {
                return Err(Fail::new("snapshot-rows-unique", format!("row id {rowid} listed twice in the initial rows")));
            }
            return Ok(());
        }
        if let Some(eoq) = obj.get("eoq") {
            if self.eoq {
                return Err(Fail::new("snapshot-then-changes", format!("second end-of-query: {ev}")));
            }
            self.eoq = true;
            self.last_change = eoq.get("change_id").and_then(|v| v.as_u64());
            return Ok(());
        }
        if let Some(ch) = obj.get("change") {
            let ty = ch.get(0).and_then(|v| v.as_str()).unwrap_or("");
            let rowid = ch.get(1).and_then(|v| v.as_u64()).ok_or_else(|| Fail::new("event-shape", format!("change without rowid: {ev}")))?;
            let cells = ch.get(2).cloned().unwrap_or(Value::Null);
            let id = ch.get(3).and_then(|v| v.as_u64()).ok_or_else(|| Fail::new("event-shape", format!("change without id: {ev}")))?;
            if !self.eoq {
                return Err(Fail::new("snapshot-then-changes", format!("change event before end-of-query: {ev}")));
            }
            if let Some(last) = self.last_change {
                if id != last + 1 {
                    return Err(Fail::new("change-ids-increase-by-one", format!("change id {id} follows {last}: {ev}")));
                }
            }
            self.last_change = Some(id);
            self.changes_seen += 1;
            if self.ids_only {
                return Ok(());
            }
            match ty {
                "insert" => {
                    self.inserts += 1;
                    if let Some(old) = self.rows.insert(rowid, cells) {
                        return Err(Fail::new("events-replay-consistently", format!("insert event for row id {rowid} which is already present with {old}: {ev}")));
                    }
                }
                "update" => {
                    self.updates += 1;
                    match self.rows.insert(rowid, cells.clone()) {
                        None => return Err(Fail::new("events-replay-consistently", format!("update event for unknown row id {rowid}: {ev}"))),
                        Some(old) if old == cells => return Err(Fail::new("no-event-without-change", format!("update event for row id {rowid} carries the cells it already had: {ev}"))),
                        _ => {}
                    }
                }
                "delete" => {
                    self.deletes += 1;
                    if self.rows.remove(&rowid).is_none() {
                        return Err(Fail::new("events-replay-consistently", format!("delete event for unknown row id {rowid}: {ev}")));
                    }
                }
                other => return Err(Fail::new("event-shape", format!("unknown change type {other}: {ev}"))),
            }
            return Ok(());
        }
        if let Some(e) = obj.get("error") {
            self.error = Some(e.to_string());
            return Ok(());
        }
        Err(Fail::new("event-shape", format!("unknown event: {ev}")))
    }

    /// the result the client holds, as a sorted multiset of rendered rows
    pub fn result(&self) -> Vec<String> {
        let mut v: Vec<String> = self.rows.values().map(|c| c.to_string()).collect();
        v.sort();
        v
    }
}

/// run `sql` on `conn` and render the rows the way the API renders cells (integers, strings, null only)
pub fn query_result(conn: &rusqlite::Connection, sql: &str) -> rusqlite::Result<Vec<String>> {
    let mut st = conn.prepare(sql)?;
    let n = st.column_count();
    let mut rows = st.query([])?;
    let mut out = vec![];
    while let Some(r) = rows.next()? {
        let mut cells = vec![];
        for i in 0..n {
            let v: rusqlite::types::Value = r.get(i)?;
            cells.push(match v {
                rusqlite::types::Value::Null => Value::Null,
                rusqlite::types::Value::Integer(i) => Value::from(i),
                rusqlite::types::Value::Real(f) => Value::from(f),
                rusqlite::types::Value::Text(s) => Value::from(s),
                rusqlite::types::Value::Blob(b) => Value::from(b),
            });
        }
        out.push(Value::Array(cells).to_string());
    }
    out.sort();
    Ok(out)
}

/// the materialised rows of a subscription database (`query` table, user columns only)
pub fn materialised(sub_db: &std::path::Path, ncols: usize) -> rusqlite::Result<Vec<String>> {
    let conn = rusqlite::Connection::open_with_flags(sub_db, rusqlite::OpenFlags::SQLITE_OPEN_READ_ONLY)?;
    let cols: Vec<String> = (0..ncols).map(|i| format!("col_{i}")).collect();
    query_result(&conn, &format!("SELECT {} FROM query", cols.join(", ")))
}
