#![allow(dead_code)]
//! Multi-node world on top of `sim`: the harness is the network (message pool, arbitrary
//! subset / order / duplication / batching of deliveries), the scheduler (apply / clear steps) and the
//! sync driver (real generate_sync + compute_available_needs + chunk_range on the client side, real
//! process_sync / handle_need on the server side).

use std::{
    collections::{BTreeMap, BTreeSet},
    path::Path,
    time::Duration,
};

use klukai_agent::api::peer::verif_hooks;
use klukai_types::{
    actor::ActorId,
    agent::Bookie,
    base::{CrsqlDbVersion, CrsqlSeq},
    broadcast::{ChangeSource, ChangeV1, Changeset, Timestamp},
    change::Change,
    sync::{SyncNeedV1, SyncStateV1, generate_sync},
};
use serde::{Deserialize, Serialize};

use crate::{
    common::{CaseInfo, Fail},
    ensure,
    sim::{self, OriginModel, Reference, SimErr, SimNode, Stmt},
};

#[derive(Debug, Clone, Serialize, Deserialize, PartialEq)]
pub enum NeedSpec {
    Full { from: u8, len: u8 },
    Partial { ver: u8, ranges: Vec<(u8, u8)> },
}

#[derive(Debug, Clone, Serialize, Deserialize, PartialEq)]
pub enum Op {
    /// local write through the HTTP handler of `node`
    Tx { node: u8, stmts: Vec<Stmt> },
    /// deliver messages picked from the pool (any subset, order, duplicates) to `dst`
    Deliver { dst: u8, picks: Vec<u16>, batch: bool },
    /// let `server` answer a need for `origin`'s versions; the answers only enter the pool
    Serve { server: u8, origin: u8, need: NeedSpec },
    /// `client` asks `server` for one need about `origin` (what a sync session does for one request);
    /// answers whose bit is set in drop_mask are lost, the rest is delivered to the client
    Fetch { client: u8, server: u8, origin: u8, need: NeedSpec, drop_mask: u8, batch: bool },
    /// one anti-entropy session client<-server; answers whose bit is set in drop_mask are lost
    Sync { client: u8, server: u8, drop_mask: u32, rev: bool, batch: bool },
    /// run the apply step for pending fully-buffered versions (all, or the which-th)
    Apply { node: u8, all: bool, which: u8 },
    /// run clear_buffered_meta for everything queued
    Clear { node: u8 },
}

pub struct Msg {
    pub supplier: usize,
    pub origin: usize,
    pub change: ChangeV1,
    pub via_sync: bool,
}

pub struct VersionRec {
    pub changes: Vec<Change>,
    pub last_seq: u64,
    pub ts: Timestamp,
    pub chunks: usize,
}

#[derive(Default, Debug, Clone)]
pub struct Stats {
    pub dropped_msgs: u64,
    pub dup_deliveries: u64,
    pub reordered: bool,
    pub multi_chunk_versions: u64,
    pub relay_answers: u64,
    pub empty_answers: u64,
    pub partial_deliveries: u64,
    pub became_covered: u64,
    pub sync_sessions: u64,
    pub conflicting_cells: u64,
    pub deletes: u64,
    pub applied_from_buffer: u64,
    pub complete_after_partial: u64,
    pub chunks_from_two_suppliers: u64,
}

pub struct World {
    pub nodes: Vec<SimNode>,
    pub pool: Vec<Msg>,
    pub versions: BTreeMap<(usize, u64), VersionRec>,
    pub reference: Reference,
    /// models[node][origin]
    pub models: Vec<BTreeMap<usize, OriginModel>>,
    pub actor_idx: BTreeMap<ActorId, usize>,
    /// every value an acknowledged statement wrote, per cell
    pub written: BTreeMap<(String, Vec<u8>, String), BTreeSet<String>>,
    pub writers: BTreeMap<(String, Vec<u8>, String), BTreeSet<usize>>,
    pub op_no: usize,
    pub stats: Stats,
    /// (node, origin, version) that became completely covered through partial chunks
    pub expected_triggers: BTreeSet<(usize, usize, u64)>,
    /// per node: bare cr-sqlite replica that receives a version exactly when it should become visible
    pub shadows: Vec<Reference>,
    /// changes received in partial chunks: (node, origin, version) -> seq -> change (first copy wins)
    pub chunk_buf: BTreeMap<(usize, usize, u64), BTreeMap<(u64, String, Vec<u8>, String), (Change, Timestamp)>>,
    /// seq ranges of the partial chunks delivered, in delivery order
    pub chunk_log: BTreeMap<(usize, usize, u64), Vec<(u64, u64)>>,
    /// everything applied to the shadow of a node, in order
    pub shadow_log: Vec<Vec<(Vec<Change>, Timestamp)>>,
    /// delivered message ids per node (to count duplicates)
    delivered: Vec<BTreeSet<usize>>,
    suppliers_seen: BTreeMap<(usize, usize, u64), BTreeSet<usize>>,
    /// an actor the harness itself introduced (C10's marker changesets): not part of the model
    pub ignore_actor: Option<ActorId>,
    /// (table, pk) -> causal length of a delete -> nodes that wrote it locally (known finding
    /// C01-concurrent-deletes-declared-empty-crosswise: two nodes deleting a row with the same causal length)
    pub delete_writers: BTreeMap<(String, Vec<u8>), BTreeMap<i64, BTreeSet<usize>>>,
}

pub const KF_CONCURRENT_DELETES: &str = "C01-concurrent-deletes-declared-empty-crosswise";

fn pk_cols(table: &str) -> usize {
    if table == "pair" { 2 } else { 1 }
}

pub fn infra(e: SimErr) -> Fail {
    Fail::infra(e.0)
}

/// what one interpreted step did (for the per-property oracles)
#[derive(Default, Debug)]
pub struct Effects {
    pub skipped: bool,
    pub touched: Vec<usize>,
    pub delivered: Vec<(usize, String)>,
}

impl World {
    pub async fn new(n: usize, root: &Path) -> Result<World, Fail> {
        Self::new_with(n, root, |_, c| c).await
    }

    /// like `new`, with a hook to adjust the configuration of each node
    pub async fn new_with(n: usize, root: &Path, adjust: impl Fn(usize, klukai_types::config::Config) -> klukai_types::config::Config) -> Result<World, Fail> {
        let mut nodes = vec![];
        for i in 0..n {
            let dir = root.join(format!("n{i}"));
            let conf = adjust(i, sim::node_config(&dir));
            nodes.push(SimNode::with_config(i, dir, conf).await.map_err(infra)?);
        }
        let mut actor_idx = BTreeMap::new();
        for (i, nd) in nodes.iter().enumerate() {
            actor_idx.insert(nd.actor(), i);
        }
        let mut shadows = vec![];
        for _ in 0..n {
            shadows.push(Reference::new().map_err(infra)?);
        }
        Ok(World {
            shadows,
            chunk_buf: BTreeMap::new(),
            chunk_log: BTreeMap::new(),
            shadow_log: vec![vec![]; n],
            models: vec![BTreeMap::new(); n],
            delivered: vec![BTreeSet::new(); n],
            nodes,
            pool: vec![],
            versions: BTreeMap::new(),
            reference: Reference::new().map_err(infra)?,
            actor_idx,
            written: BTreeMap::new(),
            writers: BTreeMap::new(),
            op_no: 0,
            stats: Stats::default(),
            expected_triggers: BTreeSet::new(),
            suppliers_seen: BTreeMap::new(),
            ignore_actor: None,
            delete_writers: BTreeMap::new(),
        })
    }

    pub fn n(&self) -> usize {
        self.nodes.len()
    }

    /// make `changes` visible in the shadow of `node` (and remember it, so that the visible state at
    /// any earlier point can be rebuilt: see the crash points of C06)
    pub fn shadow_apply(&mut self, node: usize, changes: &[Change], ts: Timestamp) {
        if let Some(sh) = self.shadows.get(node) {
            let _ = sh.apply(changes, ts);
        }
        self.shadow_log[node].push((changes.to_vec(), ts));
    }

    pub fn actor(&self, i: usize) -> ActorId {
        self.nodes[i].actor()
    }

    pub fn note_delivery(&mut self, dst: usize, origin: usize, c: &Changeset, supplier: usize) {
        self.note_delivery_from(dst, origin, c, supplier, None)
    }

    /// `pre`: the model of (dst, origin) before the batch this message belongs to (see OriginModel::on_deliver_from)
    pub fn note_delivery_from(&mut self, dst: usize, origin: usize, c: &Changeset, supplier: usize, pre: Option<&OriginModel>) {
        if let Changeset::Full { version, seqs, last_seq, .. } = c {
            if !(seqs.start().0 == 0 && seqs.end() == last_seq) {
                self.stats.partial_deliveries += 1;
                self.chunk_log.entry((dst, origin, version.0)).or_default().push((seqs.start().0, seqs.end().0));
                let e = self.suppliers_seen.entry((dst, origin, version.0)).or_default();
                e.insert(supplier);
                if e.len() == 2 {
                    self.stats.chunks_from_two_suppliers += 1;
                }
            } else if self.models[dst].get(&origin).is_some_and(|m| m.partial.contains_key(&version.0)) {
                self.stats.complete_after_partial += 1;
            }
        }
        // visibility shadow: a complete changeset becomes visible with exactly the changes it carries;
        // chunks are only remembered (first copy of a sequence wins, as the buffer table does)
        let held_before = match c {
            Changeset::Full { version, .. } => self.models[dst].get(&origin).is_some_and(|m| m.held.contains(&version.0)),
            _ => true,
        };
        // a chunk all of whose sequences were received before is ignored by the node as a whole
        // (BookedVersions::contains_all), even when this copy carries rows the earlier copy did not (a later
        // transaction of the origin overwrote them in between: both copies are the version)
        let range_known_before = match c {
            Changeset::Full { version, seqs, .. } => {
                self.models[dst].get(&origin).and_then(|m| m.partial.get(&version.0)).is_some_and(|p| p.gaps(&(seqs.start().0..=seqs.end().0)).next().is_none())
            }
            _ => false,
        };
        let m = self.models[dst].entry(origin).or_default();
        if let Some(v) = m.on_deliver_from(c, pre) {
            self.stats.became_covered += 1;
            self.expected_triggers.insert((dst, origin, v));
        }
        if let Changeset::Full { version, seqs, changes, ts, .. } = c {
            if !held_before && seqs.end() >= seqs.start() {
                if self.models[dst][&origin].held.contains(&version.0) {
                    // became held through this (complete) changeset
                    if !changes.is_empty() {
                        self.shadow_apply(dst, changes, *ts);
                    }
                } else if !range_known_before {
                    let b = self.chunk_buf.entry((dst, origin, version.0)).or_default();
                    for ch in changes {
                        b.entry((ch.seq.0, ch.table.to_string(), ch.pk.clone(), ch.cid.to_string())).or_insert_with(|| (ch.clone(), *ts));
                    }
                }
            }
        }
    }

    /// tables (and cells) of `node` equal its visibility shadow: nothing visible early, everything of a
    /// version visible at once, same result as applying the received changes unchunked
    pub async fn check_visibility(&self, node: usize, when: &str) -> Result<(), Fail> {
        let Some(sh) = self.shadows.get(node) else { return Ok(()) };
        if self.models[node].values().any(|m| m.any_ambiguous()) {
            return Ok(());
        }
        let want = sh.tables().map_err(infra)?;
        let got = self.nodes[node].dump_tables().await.map_err(infra)?;
        if got != want && std::env::var_os("KVERIF_TRACE").is_some() {
            let (nc, sc) = (self.nodes[node].dump_cells().await.map_err(infra)?, sh.cells().map_err(infra)?);
            eprintln!("   node-only cells {:?}\n   shadow-only cells {:?}", nc.iter().filter(|x| !sc.contains(x)).collect::<Vec<_>>(), sc.iter().filter(|x| !nc.contains(x)).collect::<Vec<_>>());
        }
        ensure!(got == want, "visible-exactly-when-complete", "{when}: node {node} tables differ from what the completely received versions produce:\n node   {}\n expect {}", sim::tables_repr(&got), sim::tables_repr(&want));
        Ok(())
    }

    /// local transaction on `node`; returns the acknowledged version, if any
    pub async fn tx(&mut self, node: usize, stmts: &[Stmt]) -> Result<Option<u64>, Fail> {
        self.op_no += 1;
        let statements = sim::to_statements(stmts, node, self.op_no);
        let (status, version, results) = self.nodes[node].transact(statements).await;
        ensure!(status == 200, "valid-request-is-acknowledged", "node {node}: valid write request got status {status}: {results:?}");
        let Some(v) = version else { return Ok(None) };
        let changes = self.nodes[node].own_version_changes(v).await.map_err(infra)?;
        ensure!(!changes.is_empty(), "acked-version-has-changes", "node {node}: acknowledged v{v} has no rows in crsql_changes");
        let last_seq = changes.iter().map(|c| c.seq.0).max().unwrap();
        let chunks = self.nodes[node].collect_broadcast(v, Some(last_seq)).await.map_err(|e| Fail::new("announced-to-cluster", e.0))?;
        let ts = chunks.iter().filter_map(|c| c.changeset.ts()).next().unwrap_or_default();
        self.reference.apply(&changes, ts).map_err(infra)?;
        self.shadow_apply(node, &changes, ts);
        for c in &changes {
            let key = (c.table.to_string(), c.pk.clone(), c.cid.to_string());
            self.written.entry(key.clone()).or_default().insert(sim::val_repr(&c.val));
            let w = self.writers.entry(key).or_default();
            w.insert(node);
            if w.len() == 2 {
                self.stats.conflicting_cells += 1;
            }
            if c.cid.is_crsql_sentinel() && c.cl % 2 == 0 {
                self.stats.deletes += 1;
                self.delete_writers.entry((c.table.to_string(), c.pk.clone())).or_default().entry(c.cl).or_default().insert(node);
            }
        }
        if chunks.len() >= 2 {
            self.stats.multi_chunk_versions += 1;
        }
        let n_chunks = chunks.len();
        for c in chunks {
            self.pool.push(Msg { supplier: node, origin: node, change: c, via_sync: false });
        }
        self.versions.insert((node, v), VersionRec { changes, last_seq, ts, chunks: n_chunks });
        let m = self.models[node].entry(node).or_default();
        m.held.insert(v);
        m.max = m.max.max(v);
        Ok(Some(v))
    }

    pub async fn deliver_msgs(&mut self, dst: usize, ids: &[usize], batch: bool, eff: &mut Effects) -> Result<(), Fail> {
        let mut msgs = vec![];
        for id in ids {
            let m = &self.pool[*id];
            if m.origin == dst {
                continue;
            }
            if !self.delivered[dst].insert(*id) {
                self.stats.dup_deliveries += 1;
            }
            msgs.push((*id, m.origin, m.supplier, m.change.clone(), m.via_sync));
        }
        if msgs.is_empty() {
            eff.skipped = true;
            return Ok(());
        }
        if std::env::var_os("KVERIF_TRACE").is_some() {
            eprintln!("   deliver to {dst} (batch={batch}): {:?}", msgs.iter().map(|m| format!("#{} from n{} about n{}: {}", m.0, m.2, m.1, sim::cs_brief(&m.3))).collect::<Vec<_>>());
        }
        let ordered: Vec<usize> = msgs.iter().map(|m| m.0).collect();
        if ordered.windows(2).any(|w| w[0] > w[1]) {
            self.stats.reordered = true;
        }
        eff.touched.push(dst);
        if batch {
            // inside one batch the node remembers which versions it already handled in this batch: an Empty all of
            // whose versions were touched earlier in the batch (e.g. by a chunk) is skipped, and so is a chunk of a
            // version an earlier Empty / complete changeset of the batch settled, or whose sequences an earlier chunk
            // of the batch brought (process_multiple_changes, `seen`).  What was known before the batch is filtered
            // against the state before the batch.
            let before = self.models[dst].clone();
            let mut seen: BTreeMap<usize, BTreeMap<u64, Option<rangemap::RangeInclusiveSet<u64>>>> = BTreeMap::new();
            // the node groups the messages of a batch by actor (a BTreeMap keyed by actor id) and handles one actor
            // after the other, each in arrival order; cr-sqlite's merge result for a row that is only partly known
            // depends on that order (a higher causal length drops the clocks, not the values, of the other columns),
            // so the shadow follows the same order
            let mut in_node_order = msgs.clone();
            in_node_order.sort_by_key(|m| self.actor(m.1));
            for (_, origin, supplier, c, _) in &in_node_order {
                eff.delivered.push((*origin, sim::cs_brief(c)));
                let pre = before.get(origin);
                let s = seen.entry(*origin).or_default();
                let skip = match &c.changeset {
                    Changeset::Empty { versions, .. } => {
                        let vs = versions.start().0..=versions.end().0;
                        let known_before = vs.clone().all(|v| pre.is_some_and(|m| m.held.contains(&v) || m.covered(v)));
                        known_before || vs.clone().all(|v| s.contains_key(&v))
                    }
                    Changeset::Full { version, seqs, .. } => {
                        let v = version.0;
                        let known_before = pre.is_some_and(|m| m.held.contains(&v) || m.partial.get(&v).is_some_and(|p| p.gaps(&(seqs.start().0..=seqs.end().0)).next().is_none()));
                        known_before
                            || match s.get(&v) {
                                Some(None) => true,
                                Some(Some(set)) => set.gaps(&(seqs.start().0..=seqs.end().0)).next().is_none(),
                                None => false,
                            }
                    }
                    _ => false,
                };
                if skip {
                    self.stats.dup_deliveries += 1;
                    continue;
                }
                match &c.changeset {
                    Changeset::Empty { versions, .. } => {
                        for v in versions.start().0..=versions.end().0 {
                            s.insert(v, None);
                        }
                    }
                    Changeset::Full { version, seqs, last_seq, .. } => {
                        if seqs.start().0 == 0 && seqs.end() == last_seq {
                            s.insert(version.0, None);
                        } else {
                            let e = s.entry(version.0).or_insert_with(|| Some(pre.and_then(|m| m.partial.get(&version.0).cloned()).unwrap_or_default()));
                            if let Some(set) = e {
                                set.insert(seqs.start().0..=seqs.end().0);
                            }
                        }
                    }
                    _ => {}
                }
                let empty_model = OriginModel::default();
                self.note_delivery_from(dst, *origin, &c.changeset, *supplier, Some(pre.unwrap_or(&empty_model)));
            }
            let src = if msgs.iter().any(|m| m.4) { ChangeSource::Sync } else { ChangeSource::Broadcast };
            self.nodes[dst].deliver(msgs.into_iter().map(|m| m.3).collect(), src).await.map_err(|e| Fail::new("ingest-batch-succeeds", e.0))?;
        } else {
            for (_, origin, supplier, c, via_sync) in msgs {
                self.note_delivery(dst, origin, &c.changeset, supplier);
                eff.delivered.push((origin, sim::cs_brief(&c)));
                self.nodes[dst].deliver(vec![c], if via_sync { ChangeSource::Sync } else { ChangeSource::Broadcast }).await.map_err(|e| Fail::new("ingest-batch-succeeds", e.0))?;
            }
        }
        self.nodes[dst].drain_apply_now();
        if std::env::var_os("KVERIF_TRACE").is_some() {
            for o in 0..self.n() {
                if o != dst {
                    eprintln!("      node {dst} about n{o}: {}; pending {}", self.nodes[dst].partials_repr(self.actor(o)).await, self.nodes[dst].pending_apply.len());
                }
            }
        }
        Ok(())
    }

    fn head_of(&self, server: usize, origin: usize) -> u64 {
        self.models[server].get(&origin).map(|m| m.max).unwrap_or(0)
    }

    pub fn need_from_spec(&self, server: usize, origin: usize, spec: &NeedSpec) -> Option<SyncNeedV1> {
        let head = self.head_of(server, origin);
        if head == 0 {
            return None;
        }
        match spec {
            NeedSpec::Full { from, len } => {
                let s = (*from as u64 % head) + 1;
                let e = (s + *len as u64 % 6).min(head);
                Some(SyncNeedV1::Full { versions: CrsqlDbVersion(s)..=CrsqlDbVersion(e) })
            }
            NeedSpec::Partial { ver, ranges } => {
                let v = (*ver as u64 % head) + 1;
                let last = self.versions.get(&(origin, v)).map(|r| r.last_seq).unwrap_or(0);
                let mut set = rangemap::RangeInclusiveSet::new();
                for (a, b) in ranges {
                    let s = *a as u64 % (last + 1);
                    // mostly short ranges, but also long ones that span several earlier chunks and holes
                    let len = if *b < 160 { *b as u64 % 4 } else { *b as u64 % (last + 1) };
                    let e = (s + len).min(last);
                    set.insert(s..=e);
                }
                if set.is_empty() {
                    set.insert(0..=last);
                }
                Some(SyncNeedV1::Partial { version: CrsqlDbVersion(v), seqs: set.iter().map(|r| CrsqlSeq(*r.start())..=CrsqlSeq(*r.end())).collect() })
            }
        }
    }

    /// answers of `server` to `req`, appended to the pool; returns their pool ids
    pub async fn serve(&mut self, server: usize, req: Vec<(ActorId, Vec<SyncNeedV1>)>) -> Result<Vec<usize>, Fail> {
        let answers = self.nodes[server].serve(req).await.map_err(|e| Fail::new("sync-server-answers", e.0))?;
        let mut ids = vec![];
        for a in answers {
            let origin = *self.actor_idx.get(&a.actor_id).ok_or_else(|| Fail::new("answers-known-actors", format!("server {server} sent a changeset of unknown actor {}", a.actor_id)))?;
            if origin != server {
                self.stats.relay_answers += 1;
            }
            if matches!(a.changeset, Changeset::Empty { .. }) {
                self.stats.empty_answers += 1;
            }
            self.pool.push(Msg { supplier: server, origin, change: a, via_sync: true });
            ids.push(self.pool.len() - 1);
        }
        Ok(ids)
    }

    /// what the real client would request from this server (compute_available_needs + chunk_range(10))
    pub async fn client_requests(&self, client: usize, server: usize) -> (SyncStateV1, SyncStateV1, Vec<(ActorId, Vec<SyncNeedV1>)>) {
        let cs = self.nodes[client].sync_state().await;
        let ss = self.nodes[server].sync_state().await;
        let needs = cs.compute_available_needs(&ss);
        let mut req: Vec<(ActorId, Vec<SyncNeedV1>)> = vec![];
        let mut actors: Vec<_> = needs.into_iter().collect();
        actors.sort_by_key(|(a, _)| *a);
        for (a, ns) in actors {
            let mut out = vec![];
            for n in ns {
                match n {
                    SyncNeedV1::Full { versions } => {
                        for r in verif_hooks::chunk_range_versions(versions, 10) {
                            out.push(SyncNeedV1::Full { versions: r });
                        }
                    }
                    other => out.push(other),
                }
            }
            req.push((a, out));
        }
        (cs, ss, req)
    }

    pub async fn sync(&mut self, client: usize, server: usize, drop_mask: u32, rev: bool, batch: bool, eff: &mut Effects) -> Result<usize, Fail> {
        if client == server {
            eff.skipped = true;
            return Ok(0);
        }
        self.stats.sync_sessions += 1;
        let (_cs, _ss, req) = self.client_requests(client, server).await;
        if req.iter().all(|(_, n)| n.is_empty()) {
            return Ok(0);
        }
        let mut ids = self.serve(server, req).await?;
        let total = ids.len();
        let mut kept = vec![];
        for (i, id) in ids.drain(..).enumerate() {
            if drop_mask & (1 << (i % 32)) != 0 {
                self.stats.dropped_msgs += 1;
            } else {
                kept.push(id);
            }
        }
        if rev {
            kept.reverse();
        }
        if !kept.is_empty() {
            self.deliver_msgs(client, &kept, batch, eff).await?;
        }
        Ok(total)
    }

    /// run the apply step on `node` for its pending triggers
    pub async fn apply(&mut self, node: usize, all: bool, which: u8, eff: &mut Effects) -> Result<usize, Fail> {
        self.nodes[node].drain_apply_now();
        let pending: Vec<(ActorId, u64)> = self.nodes[node].pending_apply.iter().cloned().collect();
        if pending.is_empty() {
            eff.skipped = true;
            return Ok(0);
        }
        let chosen: Vec<(ActorId, u64)> = if all { pending.clone() } else { vec![pending[which as usize % pending.len()]] };
        if std::env::var_os("KVERIF_TRACE").is_some() {
            let name = |p: &(ActorId, u64)| format!("n{}v{}", self.actor_idx.get(&p.0).copied().unwrap_or(99), p.1);
            eprintln!("   apply on {node}: pending {:?} chosen {:?}", pending.iter().map(name).collect::<Vec<_>>(), chosen.iter().map(name).collect::<Vec<_>>());
        }
        let mut n = 0;
        for (actor, v) in chosen {
            let origin = *self.actor_idx.get(&actor).ok_or_else(|| Fail::new("trigger-known-actor", format!("apply trigger for unknown actor {actor}")))?;
            let _applied = self.nodes[node].apply(actor, v).await.map_err(|e| Fail::new("apply-buffered-succeeds", e.0))?;
            n += 1;
            if std::env::var_os("KVERIF_TRACE").is_some() {
                eprintln!("      applied n{origin}v{v}: rows impacted {_applied}; node {node} about n{origin}: {}; {}", self.nodes[node].partials_repr(actor).await, self.nodes[node].buffer_leftovers().await.map_err(infra)?);
            }
            let m = self.models[node].entry(origin).or_default();
            if m.ambiguous(v) && !m.held.contains(&v) {
                m.undetermined.insert(v);
            }
            if m.covered(v) && !m.held.contains(&v) {
                m.undetermined.remove(&v);
                m.on_applied(v);
                self.stats.applied_from_buffer += 1;
                if let Some(buf) = self.chunk_buf.get(&(node, origin, v)) {
                    let ts = buf.values().next().map(|x| x.1).unwrap_or_default();
                    let changes: Vec<Change> = buf.values().map(|x| x.0.clone()).collect();
                    if !changes.is_empty() {
                        self.shadow_apply(node, &changes, ts);
                    }
                }
            }
            eff.touched.push(node);
        }
        Ok(n)
    }

    pub async fn clear(&mut self, node: usize) -> Result<usize, Fail> {
        self.nodes[node].clear_meta().await.map_err(|e| Fail::new("clear-buffered-meta-completes", e.0))
    }

    pub async fn step(&mut self, op: &Op, info: &mut CaseInfo) -> Result<Effects, Fail> {
        let n = self.n();
        let mut eff = Effects::default();
        info.total_ops += 1;
        match op {
            Op::Tx { node, stmts } => {
                let node = *node as usize % n;
                self.tx(node, stmts).await?;
                eff.touched.push(node);
            }
            Op::Deliver { dst, picks, batch } => {
                let dst = *dst as usize % n;
                if self.pool.is_empty() || picks.is_empty() {
                    eff.skipped = true;
                } else {
                    let ids: Vec<usize> = picks.iter().map(|p| crate::common::idx(*p, self.pool.len())).collect();
                    self.deliver_msgs(dst, &ids, *batch, &mut eff).await?;
                }
            }
            Op::Serve { server, origin, need } => {
                let server = *server as usize % n;
                let origin = *origin as usize % n;
                match self.need_from_spec(server, origin, need) {
                    Some(nd) => {
                        let a = self.actor(origin);
                        self.serve(server, vec![(a, vec![nd])]).await?;
                    }
                    None => eff.skipped = true,
                }
            }
            Op::Fetch { client, server, origin, need, drop_mask, batch } => {
                let server = *server as usize % n;
                let origin = *origin as usize % n;
                let client = *client as usize % n;
                match self.need_from_spec(server, origin, need) {
                    Some(nd) if client != server && client != origin => {
                        let a = self.actor(origin);
                        let ids = self.serve(server, vec![(a, vec![nd])]).await?;
                        let kept: Vec<usize> = ids.into_iter().enumerate().filter(|(i, _)| drop_mask & (1 << (i % 8)) == 0).map(|(_, id)| id).collect();
                        if kept.is_empty() {
                            eff.skipped = true;
                        } else {
                            self.deliver_msgs(client, &kept, *batch, &mut eff).await?;
                        }
                    }
                    _ => eff.skipped = true,
                }
            }
            Op::Sync { client, server, drop_mask, rev, batch } => {
                self.sync(*client as usize % n, *server as usize % n, *drop_mask, *rev, *batch, &mut eff).await?;
            }
            Op::Apply { node, all, which } => {
                self.apply(*node as usize % n, *all, *which, &mut eff).await?;
            }
            Op::Clear { node } => {
                let node = *node as usize % n;
                if self.clear(node).await? == 0 {
                    eff.skipped = true;
                }
            }
        }
        if eff.skipped {
            info.skipped_ops += 1;
        }
        if std::env::var_os("KVERIF_TRACE").is_some() {
            eprintln!("step {op:?}\n   -> skipped={} delivered={:?} pool={}", eff.skipped, eff.delivered, self.pool.len());
        }
        Ok(eff)
    }

    /// every version that became covered through partial chunks must have produced an apply trigger
    pub async fn await_expected_triggers(&mut self, node: usize) -> Result<(), Fail> {
        let exp: Vec<(usize, usize, u64)> = self.expected_triggers.iter().filter(|(nd, _, _)| *nd == node).cloned().collect();
        for (nd, origin, v) in exp {
            let actor = self.actor(origin);
            let held = self.models[nd].get(&origin).is_some_and(|m| m.held.contains(&v));
            if held {
                continue;
            }
            // suppliers declared different last_seq for this version: whether (and when) the node regards it as
            // completely buffered depends on which declaration it kept - no demand (see DESIGN.md §6.2)
            if self.models[nd].get(&origin).is_some_and(|m| m.l_conflict(v) || m.ambiguous(v)) {
                // still pick up a trigger if the node sent one (the apply step runs what was triggered)
                let _ = self.nodes[nd].wait_trigger(actor, v, Duration::from_millis(20)).await;
                continue;
            }
            let ok = self.nodes[nd].wait_trigger(actor, v, Duration::from_secs(10)).await;
            ensure!(ok, "covered-version-is-scheduled-for-apply", "node {nd}: v{v} of node {origin} is completely buffered but no apply was scheduled within 10s");
        }
        Ok(())
    }

    /// fair schedule until a fix-point: apply + clear everywhere, then every ordered pair syncs without
    /// loss; stops after a round in which no session produced an answer and nothing was pending
    pub async fn quiesce(&mut self, max_rounds: usize, info: &mut CaseInfo) -> Result<usize, Fail> {
        let n = self.n();
        for round in 0..max_rounds {
            let mut progressed = false;
            for i in 0..n {
                self.await_expected_triggers(i).await?;
                // scheduling only (no verdict): a version the node itself regards as completely buffered gets its
                // trigger from a spawned task - a fair schedule runs the apply step after it arrived, also where the
                // model makes no demand because suppliers declared different last_seq
                for (a, v) in self.nodes[i].complete_partials().await {
                    let _ = self.nodes[i].wait_trigger(a, v, Duration::from_secs(2)).await;
                }
                let mut eff = Effects::default();
                if self.apply(i, true, 0, &mut eff).await? > 0 {
                    progressed = true;
                }
                self.clear(i).await?;
            }
            for c in 0..n {
                for s in 0..n {
                    if c == s {
                        continue;
                    }
                    let mut eff = Effects::default();
                    if self.sync(c, s, 0, false, true, &mut eff).await? > 0 {
                        progressed = true;
                    }
                }
            }
            if std::env::var_os("KVERIF_TRACE").is_some() {
                eprintln!("   quiesce round {round}: progressed={progressed}");
            }
            if !progressed {
                // one last maintenance pass
                for i in 0..n {
                    self.clear(i).await?;
                }
                // at the fix-point nothing may be left open: resolve versions about which no demand
                // was made while suppliers disagreed (the shadow gets everything that was received)
                for i in 0..n {
                    let open: Vec<(usize, u64)> = self.models[i].iter().flat_map(|(o, m)| m.undetermined.iter().map(|v| (*o, *v)).collect::<Vec<_>>()).collect();
                    for (o, v) in open {
                        if let Some(buf) = self.chunk_buf.get(&(i, o, v)) {
                            let ts = buf.values().next().map(|x| x.1).unwrap_or_default();
                            let changes: Vec<Change> = buf.values().map(|x| x.0.clone()).collect();
                            if !changes.is_empty() {
                                self.shadow_apply(i, &changes, ts);
                            }
                        }
                        let m = self.models[i].get_mut(&o).unwrap();
                        m.undetermined.remove(&v);
                        m.on_applied(v);
                    }
                }
                return Ok(round);
            }
        }
        let _ = info;
        Err(Fail::new("reaches-a-fix-point", format!("sync sessions still produce answers after {max_rounds} fair rounds")))
    }

    // ------------------------------------------------------------------------------------------
    // oracles

    /// C02: advertised state of `node` vs the set model, for every origin
    pub async fn check_advertised(&self, node: usize) -> Result<(), Fail> {
        let st = self.nodes[node].sync_state().await;
        for (origin, m) in &self.models[node] {
            let actor = self.actor(*origin);
            sim::check_advertised(&st, actor, m, *origin == node).map_err(|(clause, msg)| {
                Fail::new(&clause, format!("node {node} about node {origin}: {msg} [model: last_seq declarations {:?}, undetermined {:?}, partial {:?}]", m.last_seqs, m.undetermined, m.partial.keys().collect::<Vec<_>>()))
            })?;
        }
        for a in st.heads.keys() {
            let o = self.actor_idx.get(a);
            if Some(*a) == self.ignore_actor {
                continue;
            }
            ensure!(o.is_some_and(|o| self.models[node].contains_key(o)), "advertises-only-known-actors", "node {node} advertises a head for {a} it never heard of");
        }
        Ok(())
    }

    /// C02/C06: what a restart would advertise (from_conn) equals what the live view advertises
    pub async fn check_durable(&self, node: usize) -> Result<(), Fail> {
        let live = self.nodes[node].sync_state().await;
        let mut map = std::collections::HashMap::new();
        for origin in self.models[node].keys() {
            let actor = self.actor(*origin);
            let bv = self.nodes[node].reloaded(actor).await.map_err(infra)?;
            // persisted gap rows: canonical
            let gaps: Vec<(u64, u64)> = sim::ranges_u64(bv.needed());
            for w in gaps.windows(2) {
                ensure!(w[1].0 > w[0].1 + 1, "persisted-gaps-canonical", "node {node}: persisted gaps for node {origin} overlap or touch: {gaps:?}");
            }
            map.insert(actor, bv);
        }
        let reloaded = generate_sync(&Bookie::new(map), self.actor(node)).await;
        for origin in self.models[node].keys() {
            let a = self.actor(*origin);
            let (lh, rh) = (live.heads.get(&a), reloaded.heads.get(&a));
            // A reload may come back with a lower head: a trailing version that was recorded as held
            // without leaving any data (every change lost the merge) is then simply beyond the head again
            // and will be asked for once more (C06 words it: "needed, partial or beyond its head").  It
            // must never come back higher, and nothing above the reloaded head may be listed.
            let (lhv, rhv) = (lh.map(|v| v.0).unwrap_or(0), rh.map(|v| v.0).unwrap_or(0));
            ensure!(rhv <= lhv, "durable-head", "node {node} about node {origin}: live head {lh:?}, after reload {rh:?}");
            if rhv < lhv {
                let m = &self.models[node][origin];
                for v in rhv + 1..=lhv {
                    ensure!(m.held.contains(&v) && !m.partial.contains_key(&v), "durable-head", "node {node} about node {origin}: live head {lhv}, after reload {rhv}, but v{v} is not a version held without stored data");
                }
            }
            let norm = |s: &SyncStateV1| {
                let mut need: Vec<(u64, u64)> = s.need.get(&a).map(|v| v.iter().map(|r| (r.start().0, r.end().0)).collect()).unwrap_or_default();
                need.sort();
                let mut part: Vec<(u64, Vec<(u64, u64)>)> =
                    s.partial_need.get(&a).map(|m| m.iter().map(|(v, r)| (v.0, r.iter().map(|x| (x.start().0, x.end().0)).collect())).collect()).unwrap_or_default();
                part.sort();
                (need, part)
            };
            let (mut l, mut r) = (norm(&live), norm(&reloaded));
            // suppliers that declared different last_seq for a version leave the node with one declaration in memory
            // and possibly another one in a persisted row: no demand about such a version (DESIGN.md §6.2)
            {
                let m = &self.models[node][origin];
                let undecided = |v: u64| m.l_conflict(v) || m.ambiguous(v) || m.undetermined.contains(&v);
                l.1.retain(|(v, _)| !undecided(*v));
                r.1.retain(|(v, _)| !undecided(*v));
            }
            ensure!(l.0 == r.0, "durable-need", "node {node} about node {origin}: live need {:?}, persisted need {:?}", l.0, r.0);
            ensure!(l.1 == r.1, "durable-partial-need", "node {node} about node {origin}: live partial_need {:?}, persisted {:?}", l.1, r.1);
        }
        Ok(())
    }

    /// two different nodes deleted this row locally with the same causal length (signature of the known
    /// finding KF_CONCURRENT_DELETES: each holder declares the other's delete version empty)
    pub fn deleted_concurrently(&self, row: &(String, Vec<u8>)) -> bool {
        self.delete_writers.get(row).is_some_and(|by_cl| by_cl.values().any(|nodes| nodes.len() >= 2))
    }

    /// C01: at the fix-point all replicas equal each other and the reference, per cell too
    pub async fn check_converged(&self) -> Result<(), Fail> {
        let want_t = self.reference.tables().map_err(infra)?;
        let want_c = self.reference.cells().map_err(infra)?;
        let mut heads: Option<Vec<(usize, u64)>> = None;
        for i in 0..self.n() {
            let t = self.nodes[i].dump_tables().await.map_err(infra)?;
            if t != want_t {
                // rows that differ, by packed primary key
                let mut rows: Vec<(String, Vec<u8>)> = vec![];
                for name in t.keys().chain(want_t.keys()).collect::<BTreeSet<_>>() {
                    let (a, b) = (t.get(name).cloned().unwrap_or_default(), want_t.get(name).cloned().unwrap_or_default());
                    for r in a.iter().filter(|r| !b.contains(r)).chain(b.iter().filter(|r| !a.contains(r))) {
                        let pk = klukai_types::pubsub::pack_columns(&r[..pk_cols(name).min(r.len())]).unwrap_or_default();
                        rows.push((name.clone(), pk));
                    }
                }
                let mut f = Fail::new("tables-equal-merge-of-all-acknowledged", format!("node {i} differs from the reference replica:\n node {}\n ref  {}", sim::tables_repr(&t), sim::tables_repr(&want_t)));
                if !rows.is_empty() && rows.iter().all(|r| self.deleted_concurrently(r)) {
                    f = f.finding(KF_CONCURRENT_DELETES);
                }
                return Err(f);
            }
            let c = self.nodes[i].dump_cells().await.map_err(infra)?;
            if c != want_c {
                let differing: Vec<&sim::Cell> = c.iter().filter(|x| !want_c.contains(x)).chain(want_c.iter().filter(|x| !c.contains(x))).collect();
                let diff: Vec<String> = c.iter().filter(|x| !want_c.contains(x)).take(4).map(|x| format!("{x:?}")).chain(want_c.iter().filter(|x| !c.contains(x)).take(4).map(|x| format!("ref:{x:?}"))).collect();
                let mut f = Fail::new("cells-equal-merge-of-all-acknowledged", format!("node {i}: per-cell CRDT state differs from the reference: {diff:?}"));
                if differing.iter().all(|x| self.deleted_concurrently(&(x.table.clone(), x.pk.clone()))) {
                    f = f.finding(KF_CONCURRENT_DELETES);
                }
                return Err(f);
            }
            let st = self.nodes[i].sync_state().await;
            ensure!(st.need.is_empty() && st.partial_need.is_empty(), "nothing-needed-at-fix-point", "node {i} still lists need {:?} partial_need {:?}", st.need, st.partial_need);
            let mut h: Vec<(usize, u64)> = st.heads.iter().map(|(a, v)| (self.actor_idx[a], v.0)).collect();
            h.sort();
            match &heads {
                None => heads = Some(h),
                Some(h0) => ensure!(*h0 == h, "heads-equal-at-fix-point", "node {i} heads {h:?} differ from node 0 heads {h0:?}"),
            }
        }
        Ok(())
    }

    /// C01: a node never shows a value that no acknowledged transaction produced (checked any time)
    pub async fn check_provenance(&self, node: usize) -> Result<(), Fail> {
        let cells = self.nodes[node].dump_cells().await.map_err(infra)?;
        for c in cells {
            if c.cid == "-1" {
                continue;
            }
            let key = (c.table.clone(), c.pk.clone(), c.cid.clone());
            let ok = self.written.get(&key).is_some_and(|s| s.contains(&c.val)) || matches!(c.val.as_str(), "t" | "i0" | "NULL");
            ensure!(ok, "no-value-from-nowhere", "node {node} shows {}.{} pk {} = {} which no acknowledged statement wrote (written: {:?})", c.table, c.cid, hex::encode(&c.pk), c.val, self.written.get(&key));
        }
        Ok(())
    }

    /// live changes of (origin, version) on `node`, straight from its cr-sqlite tables
    pub async fn live_rows(&self, node: usize, origin: usize, v: u64) -> Result<Vec<Change>, Fail> {
        let conn = self.nodes[node].agent.pool().read().await.map_err(|e| Fail::infra(e.to_string()))?;
        let actor = self.actor(origin);
        tokio::task::block_in_place(|| {
            let mut st = conn
                .prepare_cached(r#"SELECT "table", pk, cid, val, col_version, db_version, seq, site_id, cl FROM crsql_changes WHERE site_id = ? AND db_version = ? ORDER BY seq ASC"#)
                .map_err(|e| Fail::infra(e.to_string()))?;
            let rows = st.query_map(rusqlite::params![actor, v], klukai_types::change::row_to_change).and_then(|r| r.collect::<rusqlite::Result<Vec<_>>>()).map_err(|e| Fail::infra(e.to_string()))?;
            Ok(rows)
        })
    }

    /// C05 (racing tier): the server answers a need while a delivery commits in the middle of the
    /// session.  The harness owns the schedule: the answer channel has capacity 1, `pause_after` answers
    /// are read, then the delivery is performed on the server, then the rest is drained.  Safety
    /// clauses only: an Empty may only cover a version that is held without live changes before or
    /// after the interleaved commit; nothing is answered for versions not held at either point.
    pub async fn check_serve_racing(&mut self, server: usize, origin: usize, need: SyncNeedV1, pause_after: usize, ids: &[usize], info: &mut CaseInfo) -> Result<(), Fail> {
        let actor = self.actor(origin);
        let req_versions: Vec<u64> = match &need {
            SyncNeedV1::Full { versions } => (versions.start().0..=versions.end().0).collect(),
            SyncNeedV1::Partial { version, .. } => vec![version.0],
            SyncNeedV1::Empty { .. } => vec![],
        };
        // class of a version on the server: 0 = not held, 1 = partial, 2 = held with live rows, 3 = held without
        async fn classes(w: &World, server: usize, origin: usize, vs: &[u64]) -> Result<BTreeMap<u64, u8>, Fail> {
            let model = w.models[server].get(&origin).cloned().unwrap_or_default();
            let mut out = BTreeMap::new();
            for v in vs {
                let held = model.held.contains(v) || (server == origin && *v <= model.max);
                let c = if held {
                    if w.live_rows(server, origin, *v).await?.is_empty() { 3 } else { 2 }
                } else if model.partial.contains_key(v) {
                    1
                } else {
                    0
                };
                out.insert(*v, c);
            }
            Ok(out)
        }
        let before = classes(self, server, origin, &req_versions).await?;
        let (tx_need, rx_need) = tokio::sync::mpsc::channel(8);
        let (tx, mut rx) = tokio::sync::mpsc::channel::<klukai_types::sync::SyncMessage>(1);
        tx_need.send(vec![(actor, vec![need.clone()])]).await.map_err(|_| Fail::infra("need channel"))?;
        drop(tx_need);
        let pool = self.nodes[server].agent.pool().clone();
        let bookie = self.nodes[server].bookie.clone();
        let h = tokio::spawn(async move { verif_hooks::process_sync(pool, bookie, tx, rx_need).await });
        let mut answers: Vec<ChangeV1> = vec![];
        let mut closed = false;
        while answers.len() < pause_after {
            match rx.recv().await {
                Some(klukai_types::sync::SyncMessage::V1(klukai_types::sync::SyncMessageV1::Changeset(c))) => answers.push(c),
                Some(_) => {}
                None => {
                    closed = true;
                    break;
                }
            }
        }
        // the interleaved commit on the server
        let mut eff = Effects::default();
        if !self.pool.is_empty() && !ids.is_empty() {
            self.deliver_msgs(server, ids, true, &mut eff).await?;
            let mut e2 = Effects::default();
            self.apply(server, true, 0, &mut e2).await?;
        }
        if !closed {
            info.class("commit-interleaved-with-an-open-session");
        }
        while let Some(m) = rx.recv().await {
            if let klukai_types::sync::SyncMessage::V1(klukai_types::sync::SyncMessageV1::Changeset(c)) = m {
                answers.push(c);
            }
        }
        h.await.map_err(|e| Fail::infra(format!("process_sync join: {e}")))?.map_err(|e| Fail::new("sync-server-answers", e.to_string()))?;
        let after = classes(self, server, origin, &req_versions).await?;
        let changed = before != after;
        if changed && !closed {
            info.class("served-version-changed-class-mid-session");
            info.nontrivial = true;
        }
        for a in &answers {
            match &a.changeset {
                Changeset::Empty { versions, .. } => {
                    for v in versions.start().0..=versions.end().0 {
                        let (b, c) = (before.get(&v).copied().unwrap_or(0), after.get(&v).copied().unwrap_or(0));
                        let m = &self.models[server].get(&origin).cloned().unwrap_or_default();
                        if m.l_conflict(v) || m.undetermined.contains(&v) {
                            continue;
                        }
                        ensure!(
                            b == 3 || c == 3,
                            "empty-only-for-held-versions-without-live-changes",
                            "v{v} of node {origin} declared empty by server {server}, but it was {} before and {} after the commit that interleaved with the session (delivered {:?})",
                            ["not held", "partially buffered", "held with live changes", "held without live changes"][b as usize],
                            ["not held", "partially buffered", "held with live changes", "held without live changes"][c as usize],
                            eff.delivered
                        );
                    }
                }
                Changeset::Full { version, changes, seqs, .. } => {
                    for ch in changes {
                        ensure!(seqs.contains(&ch.seq), "change-inside-changeset-range", "v{}: change seq {} outside {}..={}", version.0, ch.seq.0, seqs.start().0, seqs.end().0);
                    }
                    let (b, c) = (before.get(&version.0).copied().unwrap_or(0), after.get(&version.0).copied().unwrap_or(0));
                    ensure!(b != 0 || c != 0, "silent-about-versions-not-held", "v{} answered though the server held nothing of it before or after the interleaved commit", version.0);
                }
                _ => {}
            }
        }
        Ok(())
    }

    /// C05: let `server` answer one need about `origin` through the real process_sync / handle_need and
    /// compare the answer with what the server holds (harness model + the server's own crsql_changes)
    pub async fn check_serve(&mut self, server: usize, origin: usize, need: SyncNeedV1, info: &mut CaseInfo) -> Result<(), Fail> {
        let actor = self.actor(origin);
        let model = self.models[server].get(&origin).cloned().unwrap_or_default();
        let head = model.max;
        let answers = self.nodes[server].serve(vec![(actor, vec![need.clone()])]).await.map_err(|e| Fail::new("sync-server-answers", e.0))?;
        // group by version
        let mut fulls: BTreeMap<u64, Vec<(u64, u64, u64, Vec<Change>)>> = BTreeMap::new();
        let mut empties: rangemap::RangeInclusiveSet<u64> = Default::default();
        for a in &answers {
            ensure!(a.actor_id == actor, "answers-the-requested-actor", "asked about node {origin}, got a changeset of {}", a.actor_id);
            match &a.changeset {
                Changeset::Full { version, changes, seqs, last_seq, .. } => {
                    for c in changes {
                        ensure!(seqs.contains(&c.seq), "change-inside-changeset-range", "v{}: change seq {} outside {}..={}", version.0, c.seq.0, seqs.start().0, seqs.end().0);
                        ensure!(c.db_version == *version && c.site_id == actor.to_bytes(), "change-belongs-to-version", "v{}: carries a change of version {} / another site", version.0, c.db_version.0);
                    }
                    fulls.entry(version.0).or_default().push((seqs.start().0, seqs.end().0, last_seq.0, changes.clone()));
                }
                Changeset::Empty { versions, .. } => {
                    empties.insert(versions.start().0..=versions.end().0);
                }
                other => return Err(Fail::new("answer-kinds", format!("unexpected answer {other:?}"))),
            }
        }
        let (req_versions, req_seqs): (Vec<u64>, Option<Vec<(u64, u64)>>) = match &need {
            SyncNeedV1::Full { versions } => ((versions.start().0..=versions.end().0).collect(), None),
            SyncNeedV1::Partial { version, seqs } => (vec![version.0], Some(seqs.iter().map(|r| (r.start().0, r.end().0)).collect())),
            SyncNeedV1::Empty { .. } => (vec![], None),
        };
        for v in fulls.keys() {
            ensure!(req_versions.contains(v), "answers-only-what-was-asked", "answered v{v} which was not requested ({need:?})");
        }
        for r in empties.iter() {
            for v in *r.start()..=*r.end() {
                ensure!(req_versions.contains(&v), "answers-only-what-was-asked", "declared v{v} empty which was not requested ({need:?})");
            }
        }
        let mut classes = BTreeSet::new();
        for v in req_versions {
            if v == 0 {
                continue;
            }
            if model.undetermined.contains(&v) || model.ambiguous(v) || model.l_conflict(v) {
                info.class("version-with-conflicting-last_seq-declarations(skipped)");
                continue;
            }
            let own = server == origin;
            let held = model.held.contains(&v) || (own && v <= head);
            let partial = !held && model.partial.contains_key(&v);
            let got = fulls.get(&v).cloned().unwrap_or_default();
            let declared_empty = empties.contains(&v);
            if held {
                let live = self.live_rows(server, origin, v).await?;
                if live.is_empty() {
                    classes.insert("held-no-live-changes");
                    if !got.is_empty() {
                        let buffered = self.nodes[server].count(&format!("SELECT count(*) FROM __corro_buffered_changes WHERE site_id = X'{}' AND db_version = {v}", actor.to_bytes().iter().map(|b| format!("{b:02X}")).collect::<String>())).await.unwrap_or(-1);
                        let seqrows = self.nodes[server].count(&format!("SELECT count(*) FROM __corro_seq_bookkeeping WHERE site_id = X'{}' AND db_version = {v}", actor.to_bytes().iter().map(|b| format!("{b:02X}")).collect::<String>())).await.unwrap_or(-1);
                        return Err(Fail::new("cleared-version-sends-no-changes", format!("v{v} has no live change on the server but it sent {got:?} (server still has {buffered} buffered rows and {seqrows} seq bookkeeping rows of it; model: held explicitly {}, partial {:?})", model.held.contains(&v), model.partial.get(&v))));
                    }
                    ensure!(declared_empty, "cleared-version-declared-empty", "v{v} is held without live changes but was not declared empty (answers: {:?})", answers.iter().map(sim::cs_brief).collect::<Vec<_>>());
                } else {
                    classes.insert("held-with-live-changes");
                    ensure!(!declared_empty, "held-version-not-declared-empty", "v{v} has {} live changes but was declared empty", live.len());
                    let max_seq = live.iter().map(|c| c.seq.0).max().unwrap();
                    let mut ranges: Vec<(u64, u64)> = got.iter().map(|g| (g.0, g.1)).collect();
                    ranges.sort();
                    let mut sent: Vec<Change> = got.iter().flat_map(|g| g.3.clone()).collect();
                    let key = |c: &Change| (c.seq.0, c.table.to_string(), c.pk.clone(), c.cid.to_string());
                    sent.sort_by_key(key);
                    match &req_seqs {
                        None => {
                            ensure!(!ranges.is_empty(), "held-version-is-sent", "v{v} is held with {} live changes but nothing was sent", live.len());
                            ensure!(ranges[0].0 == 0 && ranges.last().unwrap().1 == max_seq, "chunks-tile-0..=last_seq", "v{v}: chunks {ranges:?} do not tile 0..={max_seq}");
                            for w in ranges.windows(2) {
                                ensure!(w[1].0 == w[0].1 + 1, "chunks-tile-0..=last_seq", "v{v}: chunks {ranges:?} overlap or leave a hole");
                            }
                            for g in &got {
                                ensure!(g.2 == max_seq, "last-seq-is-largest-live-seq", "v{v}: chunk declares last_seq {} but the largest live seq is {max_seq}", g.2);
                            }
                            let mut want = live.clone();
                            want.sort_by_key(key);
                            ensure!(sent == want, "carries-exactly-the-live-changes", "v{v}: sent {} changes, {} are live (sent seqs {:?}, live seqs {:?})", sent.len(), want.len(), sent.iter().map(|c| c.seq.0).collect::<Vec<_>>(), want.iter().map(|c| c.seq.0).collect::<Vec<_>>());
                        }
                        Some(rs) => {
                            // every requested range is answered by chunks tiling it, carrying the live changes in it
                            let mut want: Vec<Change> = live.iter().filter(|c| rs.iter().any(|(s, e)| *s <= c.seq.0 && c.seq.0 <= *e)).cloned().collect();
                            want.sort_by_key(key);
                            let mut sent_d = sent.clone();
                            sent_d.dedup();
                            ensure!(sent_d == want, "carries-exactly-the-live-changes", "v{v} seqs {rs:?}: sent seqs {:?}, live in range {:?}", sent.iter().map(|c| c.seq.0).collect::<Vec<_>>(), want.iter().map(|c| c.seq.0).collect::<Vec<_>>());
                            let mut cov = rangemap::RangeInclusiveSet::new();
                            for (s, e) in &ranges {
                                cov.insert(*s..=*e);
                                ensure!(rs.iter().any(|(a, b)| a <= s && e <= b), "partial-answer-inside-request", "v{v}: chunk {s}..={e} outside the requested {rs:?}");
                            }
                            for (s, e) in rs {
                                ensure!(cov.gaps(&(*s..=*e)).next().is_none(), "partial-answer-covers-request", "v{v}: requested {s}..={e}, chunks {ranges:?}");
                            }
                        }
                    }
                }
            } else if partial {
                classes.insert("partially-buffered");
                ensure!(!declared_empty, "partial-version-never-declared-empty", "v{v} is only partially received (have {:?}) but was declared empty", model.partial.get(&v));
                let have = model.partial.get(&v).cloned().unwrap_or_default();
                let buf = self.chunk_buf.get(&(server, origin, v));
                let mut cov = rangemap::RangeInclusiveSet::new();
                for g in &got {
                    cov.insert(g.0..=g.1);
                    for c in &g.3 {
                        let k = (c.seq.0, c.table.to_string(), c.pk.clone(), c.cid.to_string());
                        ensure!(buf.is_some_and(|b| b.get(&k).is_some_and(|x| x.0 == *c)), "partial-answer-is-what-was-buffered", "v{v}: sent change seq {} that the server never received", c.seq.0);
                    }
                }
                let want: rangemap::RangeInclusiveSet<u64> = match &req_seqs {
                    None => have.clone(),
                    Some(rs) => {
                        let mut w = rangemap::RangeInclusiveSet::new();
                        for (s, e) in rs {
                            for h in have.overlapping(&(*s..=*e)) {
                                w.insert((*h.start()).max(*s)..=(*h.end()).min(*e));
                            }
                        }
                        w
                    }
                };
                let c: Vec<(u64, u64)> = cov.iter().map(|r| (*r.start(), *r.end())).collect();
                let wv: Vec<(u64, u64)> = want.iter().map(|r| (*r.start(), *r.end())).collect();
                ensure!(c == wv, "partial-answer-is-exactly-the-buffered-ranges", "v{v}: sent ranges {c:?}, buffered (in request) {wv:?}");
            } else {
                classes.insert("not-held");
                ensure!(got.is_empty() && !declared_empty, "silent-about-versions-not-held", "v{v} is not held by the server (needed or beyond its head {head}) but it answered {got:?} empty={declared_empty}");
            }
        }
        for c in &classes {
            info.class(c);
        }
        if classes.len() >= 2 && (classes.contains("partially-buffered") || classes.contains("not-held")) {
            info.nontrivial = true;
        }
        Ok(())
    }

    pub fn classify(&self, info: &mut CaseInfo) {
        let s = &self.stats;
        if s.conflicting_cells > 0 {
            info.class("conflicting-writers-on-a-cell");
        }
        if s.deletes > 0 {
            info.class("has-delete");
        }
        if s.multi_chunk_versions > 0 {
            info.class("version-split-in>=2-broadcast-chunks");
        }
        if s.chunks_from_two_suppliers > 0 {
            info.class("chunks-of-a-version-from-two-suppliers");
        }
        if s.relay_answers > 0 {
            info.class("relay-served-another-actor");
        }
        if s.dup_deliveries > 0 {
            info.class("duplicate-delivery");
        }
        if s.dropped_msgs > 0 {
            info.class("sync-answers-lost");
        }
        if s.reordered {
            info.class("reordered-delivery");
        }
        if s.empty_answers > 0 {
            info.class("empty-answers");
        }
        if s.partial_deliveries > 0 {
            info.class("partial-chunk-delivered");
        }
        if s.became_covered > 0 {
            info.class("version-completed-from-chunks");
        }
        if s.applied_from_buffer > 0 {
            info.class("applied-from-buffer");
        }
        if s.complete_after_partial > 0 {
            info.class("complete-changeset-after-partial");
        }
    }
}
