"""Per-property driver configuration (level claimed, generation/non-triviality rule, assumptions)."""

PROPS = {
    "C08": {
        "level": "exploration",
        "workers": 16,
        "rule": ("generated: start<=last in 0..=120, strictly increasing seq subsets of [start,last] (dense/holey/empty/"
                 "ending early), payload sizes 0..9000 B, size limit in {0,1,40,..,8192,20000,usize::MAX} optionally changed "
                 "between chunks; chunk_range over ranges up to 10^6 with chunk size 1..=50, both instantiations; plus an "
                 "exhaustive sweep (last<=6, all subsets, 3 limits). Non-trivial: >=3 chunks AND a hole at a chunk border "
                 "(chunks) / >=2 sub-ranges (range). Distinct = hash of the generated case."),
        "engine": "E1-pure",
        "technique": "property-based testing (proptest) + exhaustive small-scope sweep; oracle: exact tiling/partition predicate",
        "level_text": ("generated-input search against an exact validity predicate (tiling of [start,last], exact ordered "
                       "partition of the input); small scope swept exhaustively, the rest sampled (10^5 quick / 10^7 thorough)"),
        "level_note": "trusts proptest's generators and the harness' own predicate; ChunkedChanges and chunk_range are the real code (chunk_range via feature-gated wrapper)",
        "assumptions": ["ChunkedChanges is fed seqs inside [start,last] as its callers do (SQL BETWEEN / MAX(seq))",
                        "chunk size >= 1 (the only caller passes 10)"],
    },
}

ENGINES = [
    {"name": "E1-pure", "path": "/verif/harness", "serves_properties": ["C02", "C04", "C08", "C09", "C18", "C20"],
     "kind_free_text": "proptest TestRunner driven from the kverif binary over pure / single-connection code"},
    {"name": "E2-sim", "path": "/verif/harness", "serves_properties": ["C01", "C02", "C03", "C05", "C06", "C07", "C10"],
     "kind_free_text": "deterministic in-process cluster simulator on real setup() nodes; the harness is network, scheduler and sync driver"},
    {"name": "E3-live", "path": "/verif/harness", "serves_properties": ["C11", "C12", "C13", "C14", "C15", "C16", "C17", "C19", "C20"],
     "kind_free_text": "full agents on loopback (HTTP API, QUIC) driven by generated request/change/attach/shutdown sequences"},
    {"name": "E4-fuzz", "path": "/verif/fuzz", "serves_properties": ["C09"],
     "kind_free_text": "cargo-fuzz / libFuzzer targets with the semantic oracle inside the target (thorough tier)"},
]

# properties not (yet) claimed; kept current as checks land
NOT_APPLICABLE = [
    {"property_id": pid, "reason": "check not built yet in this round (planned, see DESIGN.md §2); not claimed until its check runs silent on the unchanged tree"}
    for pid in ["C01","C02","C03","C04","C05","C06","C07","C09","C10","C11","C12","C13","C14","C15","C16","C17","C18","C19","C20"]
    if pid not in PROPS
]
