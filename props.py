"""Per-property driver configuration (level claimed, generation/non-triviality rule, assumptions)."""

PROPS = {
    "C06": {
        "level": "fault_enumeration",
        "workers": 16,
        "engine": "E2-sim",
        "technique": "fault enumeration inside generated histories: a crash image after every committed step, each restarted through the real start_with_config; oracles: rebuilt visible state and advertised state vs the harness model at the image; continuation to the C01 convergence verdict",
        "level_text": ("for every generated history (local writes, complete / partial / empty deliveries, lossy sync, apply and clear steps on 2-3 real setup() nodes) a crash image (db + WAL as a dying "
                       "process leaves them) of the designated node is taken after every step that committed on it - all commit boundaries of the history, incl. the point between the data commit and the "
                       "in-memory update, which is the same image; each image is restarted with the real start_with_config (real bookkeeping reload, re-scheduling, apply loop): acknowledged and stored data "
                       "present, completely buffered versions applied with no new delivery (positive polling), rebuilt generate_sync equal to the set model at the image (held only what is stored, everything "
                       "lacking needed/partial with exact ranges); the final image is re-opened and the history continued to the convergence verdict"),
        "level_note": "process-level crashes only (file copy between commits): torn pages / power loss under synchronous=NORMAL are outside what the harness can produce; the continuation re-opens the image with the harness' own copy of run()'s reload loop, the per-image checks use the real one",
        "rule": ("generated: 2-3 nodes, designated crash node, 4-14 (quick) / 4-30 (thorough) ops of the C01 alphabet; crash points = every non-skipped step touching the crash node (images where suppliers "
                 "disagreed about a version's last_seq are skipped and counted). evaluations = histories; restarts are counted in total_ops. Non-trivial: some image lies between a partial delivery and its "
                 "apply, holds a completely buffered unapplied version, or follows a local write. Distinct = hash of the case."),
        "assumptions": ["a crash image is db + -wal copied while no writer is inside a transaction", "the crashed node issues no further local transactions in the continuation"],
    },
    "C10": {
        "level": "exploration",
        "workers": 16,
        "engine": "E2-sim",
        "technique": "property-based stress of the real handle_changes loop with generated configurations, arrival sequences and an overload window (write connection held by the harness); oracle: containment of every offered changeset after at most 3 paced re-offer rounds (idleness of the ingest loop is observed through a marker changeset and a low-priority write request) + set model of the advertised state + visibility shadow",
        "level_text": ("the receiver runs the real handle_changes (feature-gated re-export) on its real ingest channel with generated processing_queue_len 1-6, apply_queue_len 1-4, changes_channel_len 1-8; "
                       "changesets of 1-3 origin actors (complete, partial seq-range chunks cut by the real handle_need, Empty, exact duplicates) arrive while the harness holds the write connection for a "
                       "generated window, so jobs block, the queue overflows and the oldest entries are shed; afterwards everything not yet contained is offered again (as sync does), at most 3 paced rounds, each followed by an observed-idle wait; "
                       " then every offered changeset must be contained, the advertised state must equal the set model of everything offered and the tables the visibility shadow"),
        "level_note": "the interleaving of the up to five concurrent process_multiple_changes jobs is scheduler-owned (sampled, not enumerated); waiting is observation of idleness (marker through the same FIFO channel + low-priority write request), not a time window; sub-campaign few-keys keeps the number of (actor, version) keys within processing_queue_len so the seen cache is never flushed wholesale",
        "rule": ("generated: 1-3 origins with 1-5 transactions, 4-23 extra partial chunks (1-2 seq ranges each) cut by the origins, 10-40 (quick) / 10-60 (thorough) arrivals picked from the pool with "
                 "duplicates, overload window [from, from+len); sub-campaign shed-empties: 3 origins that overwrite the same rows 2-4 times and then write one large version each, only their sync answers (current view: Empties + short chunks) offered, 150-220 arrivals under a held write connection, queue 22-26. Non-trivial: a re-offer round was needed, or the queue overflowed while traffic of >=2 actors arrived in the overload window. Distinct = hash of the case."),
        "assumptions": ["offers that hit a full ingest channel for 200 ms while the node is blocked count as lost (a timed-out peer)", "the apply loop is played by the harness (same call)"],
    },
    "C11": {
        "level": "exploration",
        "workers": 16,
        "engine": "E3-live",
        "technique": "differential / model-based property testing against a live agent: generated (query template, parameter) x generated histories of local (HTTP) and remote (real origin nodes, QUIC broadcast frames, held back and reordered) transactions over three joined tables; oracle: the user's SELECT re-evaluated on the node database vs the client-side replay of the NDJSON event stream, vs the query table of the subscription database, vs the snapshot served to a second subscriber; per-event stream rules (ids +1, insert/update/delete consistent with the replay, no update event carrying unchanged cells)",
        "level_text": ("12 query templates (single-table filters with comparison / IS NULL / OR, expression columns, INNER joins with and without aliases, LEFT joins incl. ON with an extra predicate and a nullable-side join key, "
                       "a three-table join; composite and text keys) with generated constants; histories of 2-9 transactions before subscribing and 1-3 (quick) / 1-6 (thorough) phases of 2-6 transactions of 1-3 "
                       "statements (upserts, single-column updates, deletes, primary-key moves, multi-table) executed locally through /v1/transactions or on one of two real origin nodes whose broadcasts reach the node "
                       "over QUIC at once or held back to the end of the phase in reverse order; after subscribing and after every phase the harness polls (positive, 8 s ceiling) until the remote versions are applied and "
                       "stream replay = query table = SELECT on the database; finally a second subscriber's snapshot must equal the SELECT too"),
        "level_note": "the matcher batches candidates for up to 600 ms: equality is awaited, a result that does not become equal within 8 s of quiet (13x the batching window) is the violation; remote changes not applied within that time are reported as infrastructure (exit 2), never as violation; aggregates, sub-selects and compound selects are outside the listed 'supported queries' and not generated",
        "rule": ("generated as above. Non-trivial: the query result changed in at least one phase, at least two change events were received and at least one of them was an update or delete. Distinct = hash of the case. "
                 "Failures matching the known finding C11-left-join-left-only-rows-not-maintained (LEFT JOIN query, results differ only in rows whose nullable-side columns are all NULL) are tolerated and counted."),
        "assumptions": ["values are integers, text and NULL (rendered identically by the API and the oracle)", "a case ends at its first tolerated known-finding hit (the stale row would poison later comparisons)"],
    },
    "C12": {
        "level": "exploration",
        "workers": 16,
        "engine": "E3-live",
        "technique": "property-based schedule sampling against a live agent: a generated script interleaves writes (single rows, bursts of 2-1500 changed rows in one transaction, range deletes) with attaches of further subscribers (from scratch, skip_rows, resume from 0-449 changes back) and pauses of 0-700 ms around the matcher's 600 ms batching window; oracle: per-stream event model (ids +1 from the snapshot's id / the resume point, no event after an error event, inserts/updates/deletes consistent with the replayed rows) and, once quiet, every stream still open stands at the end of the change log and from-scratch streams replay to the query result",
        "level_text": ("one subscription over a table of 20-200 or 1100-1500 rows; the primary stream attaches before any write; 5-15 (quick) / 5-39 (thorough) steps; every attach opens a real HTTP stream which is read to the end of "
                       "the case; a stream that ends (error event, close) is accepted - the prefix it delivered must still obey the id rules - a stream that stays open must not have skipped or repeated anything: "
                       "position = MAX(id) of the subscription's changes table, replay = SELECT on the database"),
        "level_note": "the interleaving of the attach's catch-up read with the matcher's commit and broadcast is sampled by wall-clock placement of the attach (pauses aimed at the batching window), not enumerated - the harness does not own the scheduler inside the agent; the attach buffers hold 10240 events, a burst larger than that is not produced (1500 max), so the 'gave up' path is not reached; sub-campaign 'client': the real klukai-client SubscriptionStream against a harness-owned HTTP server that serves generated event scripts (snapshot or resume point, then change ids stepping +1 with generated repeats, jumps and steps backwards): the client must yield every event up to the first irregular id unchanged and report MissedChange{expected: last+1, got} exactly there",
        "rule": ("generated as above. Non-trivial: at least one attach happened within 700 ms after a write (its catch-up can overlap the batch that carries that write), at least three streams were open and the change log has at least two entries. Distinct = hash of the case."),
        "assumptions": ["resume points lie within the retained change log (the log is pruned to ~500 entries only every 5 minutes; cases are shorter)"],
    },
    "C13": {
        "level": "fault_enumeration",
        "workers": 16,
        "engine": "E3-live",
        "technique": "stop-point enumeration inside generated histories against a live agent: the production shutdown sequence (tripwire, task handles, SubsManager::drop_handles, counted tasks) with generated traffic still arriving, or a crash image of the whole node directory at one of three points of the subscription's life; restart with the real start_with_config; oracle: GET /v1/subscriptions/{id} (status, snapshot, resumed stream) vs the query re-evaluated on the database, meta.state and the subscription directory",
        "level_text": ("per case: one of 7 join/filter query templates (the LEFT JOIN templates of C11 are left out because of the known finding there), 2-7 transactions before subscribing, a phase of 2-6 transactions "
                       "(local over HTTP or remote over QUIC) with the C11 settle oracle, then the stop: (a) graceful - the sequence command::agent::run performs, while 0-5 further transactions are sent with a "
                       "generated spacing of 0-400 ms (local ones are refused once the API is gone, remote broadcasts keep arriving and are offered again after the restart, as sync would); required: meta.state = "
                       "'completed', same id answers 200 after the restart, snapshot + query table = SELECT on the database, change log not shorter than what the client had seen, a stream resumed from the client's last id "
                       "has contiguous ids and ends where the full stream ends, 1-4 new transactions continue with the next ids; (b) crash image (database, WAL, subscription databases copied while the node runs) "
                       "taken right after the subscription request was answered (creation / initial query), in the middle of the phase (candidates in flight) or when idle; required: the image never carries "
                       "state 'completed', after restart the id answers 404 and its directory is gone"),
        "level_note": "stop points are the three named life-cycle points x generated traffic, not every instruction boundary; the crash image is a file copy of a running node (SQLite files copied one after the other, as a kill would leave them up to page-cache effects); 'draining' is covered by the graceful path only",
        "rule": ("generated as above (5:3 graceful:crash). Non-trivial: crash case (image taken of a live subscription), or graceful case in which the client had seen at least one change before the stop and new events arrived after "
                 "the restart. Distinct = hash of the case."),
        "assumptions": ["remote versions a restarted node no longer lists (all their changes lost the merge) are offered again by the harness", "the shutdown sequence mirrors crates/klukai/src/command/agent.rs"],
    },
    "C14": {
        "level": "exploration",
        "workers": 16,
        "engine": "E3-live",
        "technique": "property-based testing against a live agent with a listener on POST /v1/updates/{table}: generated hot-key histories (insert, update, delete, re-insert, key move) executed locally over HTTP and on two real origin nodes whose broadcasts arrive in a generated permutation; oracle: the table itself (keys whose row differs across a phase must have been notified; the last notification of every key must match the row's existence once quiet)",
        "level_text": ("feed on svc, inst (composite key) or meta; 0-4 transactions before attaching, then 1-3 (quick) / 1-6 (thorough) phases of 2-7 transactions of 1-3 statements biased to two keys per table so that "
                       "the same key is inserted, deleted and re-inserted in quick succession by up to three writers; remote broadcasts of a phase are held back and delivered in a generated permutation (so a "
                       "delete can arrive after the re-insert that follows it causally); after each phase, once the remote versions are applied and the feed has been silent for 900 ms (batching window 600 ms), "
                       "every key whose row differs from the start of the phase must have at least one notification in that phase, and for every key ever notified the last notification must be 'delete' exactly "
                       "when the row is absent; verdicts are taken at an 8 s ceiling only"),
        "level_note": "a notification carries no state beyond update/delete, so 'older state after newer state' is observable only through the final fate (which is what is asserted) - intermediate reorderings between two 'update' notifications are invisible to any listener; changes that leave a row as it was (A->B->A inside a phase) are not required to be notified by this oracle although the property demands it",
        "rule": ("generated as above. Non-trivial: at least 3 notifications, at least one delete notification and at least one key whose notified fate changed (update after delete or delete after update). Distinct = hash of the case."),
        "assumptions": ["the listener is registered when the response headers of POST /v1/updates/{table} arrive (changes made before that are not required)"],
    },
    "C15": {
        "level": "exploration",
        "workers": 16,
        "replay_attempts": 12,
        "engine": "E2-sim",
        "technique": "model-based property testing: generated sequences of schema submissions (benign and forbidden edits rendered from a desired-state model, raw statements at generated positions), data writes and crash-restarts against a real setup() node through the real /v1/migrations and /v1/transactions handlers; oracle: before/after observations of the database (table_xinfo, rows, indexes, crsql_changes, __corro_schema, db_version) and of agent.schema()",
        "level_text": ("each case starts from two tables holding rows, then 4-15 (quick) / 4-29 (thorough) steps: submissions of 1-3 edits (new table, add column with/without default/NOT NULL, add/change/drop index, resubmission; "
                       "forbidden: drop column, change type/default/nullability, add existing or new column to the primary key, reorder or switch the primary key, unique index, foreign key, NOT NULL without default, "
                       "table constraints, tables cr-sqlite refuses (no/nullable key, UNIQUE), 12 kinds of raw statements - syntax errors, DROP/ALTER/INSERT/DELETE, TEMP, AS SELECT, VIEW, TRIGGER, orphan index, key "
                       "expression - at generated positions), rendered for the touched tables or for all; row writes/deletes; crash-image restarts. After a submission answered 200: no table or column disappeared, "
                       "every existing column definition and primary key (with order) unchanged in the database and in agent.schema(), every existing row and change record kept, agent.schema() describes the database "
                       "(tables, columns, key order, indexes); optionally re-applied: 200 and nothing changes at all (incl. db_version). Answered otherwise: database, change records, __corro_schema and agent.schema() "
                       "identical to before. Writes through the API keep succeeding. After restart agent.schema() and the database equal those before"),
        "level_note": "crash points are between operations (no crash inside the schema transaction: that is SQLite's atomic commit); observations use a dedicated read-only connection; apply_schema iterates tables in HashSet order, so which of two edits of one submission is processed first is not harness-controlled (a replay of a found violation can need several attempts: the replay tier runs such files up to 12 times)",
        "rule": ("generated as above. Non-trivial: the case had at least one accepted submission that changed the schema AND at least one refused submission of >=2 statements or containing a new table (work to undo). "
                 "Distinct = hash of the case."),
        "assumptions": ["cr-sqlite extension binary as shipped in the repository", "a table omitted from a submission is kept (the API merges partial schemas), so 'dropped table' is reachable only as DROP TABLE statement, which the parser refuses"],
    },
    "C16": {
        "level": "exploration",
        "workers": 16,
        "engine": "E3-live",
        "technique": "property-based testing against a live agent (start_with_config, real QUIC listener and loops) whose cluster id is persisted before start: generated uni frames (real changesets, declared cluster same/different/absent), generated sync-session starts, and a generated membership table mixing clusters whose addresses are harness-owned UDP sockets; oracle: what the node applied (tables and change records), the first message of each sync stream, and which member sockets were contacted",
        "level_text": ("node cluster id from {0,1,7,65535} written to __corro_state and read back by the real setup(); 3-11 frames per case sent with a real Transport to the node's gossip listener: complete changesets "
                       "of two foreign actors (produced by real nodes) in UniPayload frames declared with one of the four ids or without the field (old frame format, defaults to 0), one frame per stream or 2-4 frames with "
                       "individually declared ids in one stream (as a broadcaster flushing buffered payloads sends them), and SyncStart frames likewise;"
                       "a version only ever declared with another cluster must never appear in the node's tables or change records (decided after a same-cluster marker broadcast sent last became visible, "
                       "plus 200 ms); a session start with another cluster must be answered first with Rejection(DifferentCluster), a same-cluster one must not; then 2-6 members (generated cluster, ring0 flag) "
                       "are put in the membership table with UDP sockets as addresses, 1-3 local writes are made through the HTTP API and one handle_sync round is run on top of the node's own loops: "
                       "no datagram may arrive at a member of another cluster (broadcast ring0, broadcast random targets, sync candidates)"),
        "level_note": "negative assertions are time-bounded observations (2.5 s for member contact, marker + 200 ms for application): a violation that needs longer is missed, never misreported; the sync-client side (answers of a server) carries no cluster id on the wire, its isolation rests on partner choice and the server-side rejection, which are what is checked; in 40 % of the cases the node's cluster id is changed at run time before a generated frame (persisted in __corro_state and Agent::set_cluster_id, the two effects of the admin command that matter here; the SWIM identity change is not replayed) and later frames use the connection that was already open",
        "rule": ("generated as above. Non-trivial: in the same case a foreign-declared version was ignored, a same-cluster version was applied, a same-cluster member was contacted and at least one "
                 "member of another cluster was listed. Distinct = hash of the case."),
        "assumptions": ["loopback UDP delivers the first QUIC datagram of a connection attempt within the observation window"],
    },
    "C17": {
        "level": "exploration",
        "workers": 16,
        "engine": "E3-live",
        "technique": "property-based testing against a live API listener (start_with_config on loopback): generated route x method x Authorization-shape x acting-body request sequences, and generated statement texts for the read endpoints; oracle: HTTP status class + digest of the whole database file, advertised sync state and subscriptions directory before/after every request",
        "level_text": ("a full agent (real axum router, middleware, pools) is started per case with a generated token (or none); 6-23 requests per case over all 7 routes + an unknown path, right and wrong method, "
                       "15 Authorization shapes derived from the configured token (missing, exact, wrong, prefix, suffix, one extra char, one letter case-flipped, other scheme, empty, scheme only, token only, ...); every "
                       "request carries a body that acts if admitted (INSERT, CREATE TABLE, new subscription). Not-exact credentials must get 4xx and leave database digest, advertised state and the subscriptions directory "
                       "unchanged; the exact token is never answered 401; without token no request is answered 401. Read endpoints: 8-29 statements per case (DML, DDL, PRAGMA, ATTACH, VACUUM, multi-statement, CTE-wrapped "
                       "writes, RETURNING, writes to crsql_changes and __corro tables, SELECTs calling each side-effecting cr-sqlite function with and without FROM) to /v1/queries and /v1/subscriptions; whatever the "
                       "status, digest and advertised state must be unchanged"),
        "level_note": "header shapes the statement does not decide (lower-case scheme, trailing space, repeated header) are sent but only the 'rejected => no action' half is asserted for them; the digest covers every table except __corro_members, plus sqlite_schema and user_version; in-memory-only effects other than the advertised sync state are not observed",
        "rule": ("generated: token [A-Za-z0-9._~+/-]{8,40} or none (1 in 4); requests as above; statements from a grammar of 40+ templates with generated values. Non-trivial (authz): a request that would have acted (transactions, migrations, "
                 "subscriptions with the right method) was rejected for its credentials; (read-only): a statement calling a cr-sqlite function was accepted (status 200) by a read endpoint and the digest compared. Distinct = hash of the case."),
        "assumptions": ["a write admitted by mistake commits within 5-10 ms of the response (the digest is taken after that pause)", "TLS / admin socket are out of scope of the statement"],
    },
    "C19": {
        "level": "exploration",
        "workers": 16,
        "engine": "E2-sim",
        "technique": "differential property testing through the real CLI: generated histories on a real source node (local writes plus merged changes of two other real nodes), `corrosion backup`, `corrosion restore` (binary built from /repo's working tree) onto generated destinations, then a real node started on the result; oracle: full crsql_changes relation with author site ids + user tables of source vs restored, restored identity, advertised heads per author, node-local tables and subscription directory. Second sub-campaign: sqlite3_restore::restore over a live WAL database with 1-4 reader PROCESSES; oracle: every successful read is all-old or all-new, final state matches the outcome",
        "level_text": ("backup: 3-19 transactions (upserts, updates, deletes, key moves over three tables) authored by the source and by two peers whose broadcasts it merged; backup of the live WAL database or of a copy "
                       "switched to rollback-journal mode; destination absent or the database of another node with 1-7 own transactions; restore with no identity option, --self-actor-id or --actor-id <generated>; "
                       "a fake member row and a stale subscription directory must not survive. live-restore: destination and source databases of 1-2999 rows (0-599 bytes padding: several hundred pages), "
                       "0-499 rows committed to the destination's WAL after the readers attached and never checkpointed, readers re-reading the whole table every 0-2 ms from their own processes "
                       "(SQLite's file locks do not exclude threads of one process), restore started 0-29 ms later"),
        "level_note": "the reader processes poll, they do not enumerate lock states: a torn read needs a read to fall into the copy window (hundreds of reads per case do); power loss during the copy is not produced; the binary's cold build takes several minutes (cached afterwards)",
        "rule": ("generated as above. Non-trivial (backup): the source holds changes of at least two authors; (live-restore): the readers saw the old database before and the new one after the restore in the same case. Distinct = hash of the case."),
        "assumptions": ["`corrosion backup` is given a path whose parent directory exists", "cr-sqlite extension binary as shipped in the repository"],
    },
    "C20": {
        "level": "exploration",
        "workers": 16,
        "engine": "E2-sim",
        "technique": "property-based schedule sampling with a watchdog: (pool) generated request schedules on the real SplitPool of a real node - three priorities, arrival offsets, hold times, requesters cancelled while queued or holding - with a live-holder counter inside the holders and a blocker phase in which every waiter is a hand-polled future, so the set and order of queued requests at the release is a fact; (mix) a full agent under a generated concurrent mix of local writes, remote complete and chunked versions, sync-state generation, matchers, cancelled HTTP requests and low-priority holders; oracle: holder count <= 1, priority waiters served before normal/low ones, every request and activity finishes and the node answers a write and a sync-state request afterwards",
        "level_text": ("pool: 2-23 free-running requests (priority/normal/low, arrival 0-24 ms, hold 0-11 ms with a real write inside, 1 in 4 cancelled after 0-29 ms wherever it is) then a blocker of generated priority "
                       "behind which 2-9 waiters of generated priorities are queued (each future polled once: its request is in its queue), release, grant order recorded; mix: 2-11 local transactions in two lanes over "
                       "HTTP, 2-11 remote versions and optionally one 40-399 row version whose broadcast chunks arrive last-first (buffered, applied by the apply loop), 2-29 generate_sync calls, a join subscription "
                       "and an update feed attached, 0-7 HTTP write requests whose client disconnects after 0.2-5 ms, 0-5 write_low holders; watchdog 60/90 s (cases take ~0.1-2 s)"),
        "level_note": "schedules are sampled by the tokio scheduler and the OS, not enumerated: a lock-order inversion that needs a specific interleaving is found only if the mix happens to produce it (this is the limit of the technique for this property, see DESIGN.md); a watchdog expiry is reported as violation because 'completes' is the property and the budget is two orders of magnitude above the normal duration; normal-before-low and FIFO inside a class are recorded as classes, not asserted (the statement only orders client-priority before the rest)",
        "rule": ("generated as above. Non-trivial (pool): at least one priority waiter and two different priorities among the waiters and at least one cancelled request in the free-running phase; (mix): >= 3 local transactions, >= 3 remote versions "
                 "and at least one cancelled request or maintenance holder. Distinct = hash of the case."),
        "assumptions": ["a request whose future was polled once with room in its queue is queued (true for the bounded channels of 256/512/1024 slots used)"],
    },
    "C05": {
        "level": "exploration",
        "workers": 16,
        "engine": "E2-sim",
        "technique": "model-based property testing: generated histories reach server states, generated needs are answered by the real process_sync/handle_need; oracle: harness model of held/partial/missing versions + the server's own crsql_changes as ground truth for live changes",
        "level_text": ("server database states are reached, not fabricated (applied, overwritten, cleared, partially buffered incl. chunks without live changes, fully buffered but unapplied, "
                       "missing versions of 1-3 actors); 5-19 generated Full/Partial needs within the advertised heads are served one at a time through the real process_sync + handle_need; per requested "
                       "version the answer must be: chunks tiling 0..=largest live seq carrying exactly the live rows (held with live rows), an Empty (held, no live rows), exactly the buffered ranges "
                       "and rows (partial), or silence (needed / beyond head); no Empty ever covers a version the server needs or holds partially; every change lies inside its changeset's range"),
        "level_note": "trusts the harness' delivery bookkeeping (model) and cr-sqlite's crsql_changes view on the server as ground truth for 'live changes'; QUIC framing of serve_sync is bypassed (process_sync called in-process)",
        "rule": ("generated: 2-3 nodes, 6-22 (quick) / 6-50 (thorough) history ops (C01 alphabet, biased to transactions and partial fetches), then 5-19 needs (server, origin, Full{from,len<=6} or "
                 "Partial{version, 1-2 seq ranges}) mapped inside the server's advertised head. Non-trivial: one need touched >=2 version classes and a partially buffered or missing version. "
                 "Distinct = hash of the case."),
        "assumptions": ["adaptive chunk-size halving needs a slow peer (timing) and is not reached", "versions whose coverage is ambiguous between suppliers' declared last_seq are skipped (counted)"],
    },
    "C02": {
        "level": "exploration",
        "workers": 16,
        "engine": "E1-pure + E2-sim",
        "technique": "model-based property testing: set model of held / needed / partial versions vs BookedVersions, its persisted rows, its reload, and generate_sync (proptest sequences + exhaustive small scope; sim histories checked after every step)",
        "level_text": ("tier A: generated and exhaustively enumerated sequences of version-range insertions through the real snapshot/insert_db/commit_snapshot path on a real cr-sqlite "
                       "connection vs a set model (needed == complement of held in 1..max as canonical ranges, persisted gap rows identical, reload identical). tier B: generated multi-node "
                       "histories (complete, partial, empty deliveries, applies, clears) where after every step every node's generate_sync output is compared with a set model built from what "
                       "the harness delivered (each version in exactly one class, exact missing seq ranges, nothing advertised held that was not stored) and with what BookedVersions::from_conn would advertise"),
        "level_note": "trusts the harness' delivery bookkeeping (model updated from what it handed to process_multiple_changes, not from what corrosion reports); where suppliers declared different last_seq for one version and coverage depends on the choice, no demand is made (counted)",
        "rule": ("tier A: <=40 ops, Insert(1-3 ranges within 1..=60, single/short/long/far ahead) or Reload; sweep: all sequences of <=4 single-range insertions over 1..=6 each followed by a reload. "
                 "tier B: C01-style histories on 2-4 nodes (8-24 ops quick, 8-50 thorough). Non-trivial: tier A: the sequence splits a gap, merges gaps and inserts beyond max+1; tier B: a partial chunk was "
                 "delivered and a version completed from chunks, a complete changeset overtook a partial one, or an Empty answer was applied. Distinct = hash of the case."),
        "assumptions": ["version numbers <= 60 in tier A (the arithmetic is range based)", "u64 extremes and version 0 are outside what callers produce"],
    },
    "C03": {
        "level": "exploration",
        "workers": 16,
        "engine": "E2-sim",
        "technique": "model-based property testing over generated chunkings / arrival orders / batchings / suppliers (proptest); oracle: visibility shadow replica compared after every step",
        "level_text": ("origin, relay and receiver built with the real setup(); the receiver gets each version as chunks produced by the real senders (captured broadcast chunks; answers of the real "
                       "handle_need of origin or relay to generated Full/Partial needs, possibly after later versions overwrote part of it), in any order, duplication and batching, mixed with versions "
                       "of a second actor; after every step the receiver's tables must equal a bare cr-sqlite shadow that gets a version exactly when a complete changeset arrived or when the chunks "
                       "cover 0..=last_seq and the apply step ran; at the end (holders answered) nothing is needed, nothing stays buffered and the result equals the unchunked reference"),
        "level_note": "trusts cr-sqlite merge determinism (shadow applies the same changes in a possibly different order) and the harness' record of what it delivered",
        "rule": ("generated: prefix of 2-6 ops (multi-row / big-payload transactions of origin and relay, relay<-origin syncs), then 4-16 (quick) / 4-40 (thorough) receiver ops: Fetch (Full or Partial need with "
                 "1-2 seq ranges from origin or relay, 8-bit loss mask, batch or single), Deliver (pool picks), Apply, Clear, Sync; then a fair schedule to the fix-point. Non-trivial: some version reached the "
                 "receiver in >=3 partial chunks out of order or overlapping. Distinct = hash of the case."),
        "assumptions": ["chunk sizes stay below a few hundred changes", "at most two suppliers"],
    },
    "C01": {
        "level": "exploration",
        "workers": 16,
        "engine": "E2-sim",
        "technique": "model-based property testing over generated multi-node histories and delivery schedules (proptest); oracle: reference replica (bare cr-sqlite fed unchunked transactions) + per-cell comparison + value provenance at the fix-point of a fair sync schedule",
        "level_text": ("generated histories on 2-4 real setup() nodes: local transactions over small key spaces through the real write handler, the harness as network "
                       "(any subset / order / duplication / batching of the captured broadcast chunks and of real sync answers), lossy and reordered sync sessions "
                       "driven through the real generate_sync / compute_available_needs / chunk_range / process_sync / handle_need, apply and clear steps anywhere; "
                       "then a fair schedule to a fix-point where every node must equal a reference replica that shares no corrosion code"),
        "level_note": "trusts cr-sqlite's own merge (the reference uses the same extension), the harness' capture of broadcasts and its in-process sync driver (QUIC framing and request de-duplication of parallel_sync are bypassed)",
        "rule": ("generated: 2-4 nodes, 4-20 (quick) / 4-60 (thorough) ops: Tx (1-4 statements over 6 integer keys incl. 0/127/128/255/256, composite blob+text keys, 0.3-6.3 KB payloads), "
                 "Deliver (1-5 pool picks, batch or single), Sync (32-bit loss mask, reversed order, batch or single), Serve (Full / Partial needs answered into the pool), Apply, Clear; then Quiesce. "
                 "Non-trivial: >=2 writers touched one cell AND a message was dropped, duplicated, reordered or delivered as a partial chunk. Distinct = hash of the op list. Fix-point differences confined to rows that two different nodes deleted locally with the same causal length match the known finding C01-concurrent-deletes-declared-empty-crosswise and are tolerated and counted."),
        "assumptions": ["fair schedule = rounds of all ordered pairs syncing without loss plus apply/clear, until a round produces no answer (max 12 rounds)",
                        "a node never receives changesets of its own actor (skipped by the interpreter)"],
    },
    "C07": {
        "level": "exploration",
        "workers": 16,
        "engine": "E2-sim",
        "technique": "model-based property testing (proptest request sequences on a real setup() node); oracles: plain-SQLite shadow (differential), version counter model, crsql_changes as ground truth for the broadcast",
        "level_text": ("generated sequences of write requests (valid, failing at first/middle/last statement, no-op, bulk, concurrent groups) through the real "
                       "api_v1_transactions handler of a node built with the real setup(); after every request: status, tables vs a plain-SQLite shadow running the "
                       "same statements, crsql_db_version, version == previous+1, broadcast chunks captured from the agent's own channel tile 0..=last_seq and carry "
                       "exactly the version's crsql_changes rows, no stray change message, own actor never listed as needed"),
        "level_note": "trusts SQLite itself (the shadow is the same library without cr-sqlite) and the harness' capture of rx_bcast; HTTP layer is bypassed (handler called directly)",
        "rule": ("generated: 3-14 (quick) / 3-40 (thorough) steps; a step is one request of 1-6 statements from a grammar (upsert/update/update-all/delete/multi-row/"
                 "composite-key/big payload/INSERT..SELECT of 0..3000 rows/named params/no-op/self-assign + injected failures: duplicate key, NOT NULL, syntax, unknown table, "
                 "wrong parameter count at any position) or a concurrent group of 2-6 requests. Non-trivial: a request failing at a non-first statement, a version broadcast "
                 "in >=2 chunks, or a concurrent group mixing failures and successes. Distinct = hash of the step list."),
        "assumptions": ["timeout-induced failures are not generated", "client disconnect mid-request is not modelled"],
    },
    "C09": {
        "level": "exploration",
        "workers": 16,
        "engine": "E1-pure",
        "abort_is_violation": True,
        "fuzz_targets": {"frames": {"runs": 20_000_000, "seeds": "frames", "jobs": 6, "max_len": 8192},
                         "keys": {"runs": 20_000_000, "seeds": "keys", "jobs": 4, "max_len": 2048}},
        "technique": "property-based round-trip + differential (crsql_pack_columns) + generated mutations of valid frames under a counting allocator; the thorough tier additionally runs two coverage-guided libFuzzer targets (/verif/fuzz: arbitrary bytes into the three real frame decoders and into unpack_columns, the same hostile-bytes oracle inside the target, corpus seeded with valid frames from the generators, 6 + 4 processes x 20 M executions)",
        "level_text": ("generated-input search with four oracles: decode(encode(x)) == x for every wire type; pack/unpack round trip and byte-for-byte "
                       "agreement with the database extension's own packing; decoding mutated valid frames never panics, never aborts, never allocates "
                       "beyond 64 KiB + 32 x input length (counting global allocator, requests > 1 GiB refused and turned into a caught panic), yields "
                       "only valid UTF-8 and re-encodes when accepted"),
        "level_note": "trusts the counting allocator wrapper and the mirror generators; decoders are the real decode sites (UniPayload/BiPayload::read_from_buffer, SyncMessage::from_buf, unpack_columns)",
        "rule": ("generated: every SyncMessage/UniPayload/BiPayload variant with all changeset/need variants and all SQLite value kinds (NaN payloads, +-0, "
                 "+-inf, i64 extremes, lengths on byte-width borders up to 70 000); packed keys of 0..255 columns; hostile = valid frame + 1-3 mutations "
                 "(truncate, bit flip, byte set, 32/64-bit overwrite with {2^31, 2^32-1, 2^63, 2^64-1, ...}, append), optionally decoded by another family's "
                 "decoder. Non-trivial: round trip: >=2 value kinds in a Full changeset / state with need and partial_need / request with >=2 needs; "
                 "pack: >=2 kinds or a value crossing a byte-width border; hostile: mutated frame that still passes the outer version/variant tags. "
                 "Distinct = hash of the generated case."),
        "assumptions": ["frames above 70 KB are not generated (memory x 16 workers); the 100 MiB codec limit is not approached",
                        "allocation bound 64 KiB + 32 x len is a generous over-approximation of in-memory size vs wire size (largest legitimate ratio ~4)"],
    },
    "C18": {
        "level": "exploration",
        "workers": 16,
        "engine": "E1-pure",
        "technique": "model-based property testing (proptest op sequences + exhaustive short sequences); oracle: fold-by-newest-identity model checked after every step",
        "level_text": ("generated notification/RTT histories applied to the real Members exactly as handle_notifications and the RTT handler do, "
                       "compared after every step with a fold-by-newest-timestamp model (presence, listed identity, ring from the current address, "
                       "ring-0 target set); all sequences of <=5 operations over a 17-letter alphabet for one actor are enumerated"),
        "level_note": "trusts the harness' model of what the SWIM layer can emit (Up only at a free address or as duplicate, Down only for an active identity, silent Rename); Members is the real code",
        "rule": ("generated: <=40 ops over 4 actors x 3 addresses x ts 0..8 x 2 clusters: Up, Down(active identity at an address), silent Rename "
                 "(newer identity takes over an address), Rtt(addr, ms in {0,1,3,5,6,14,40,99,150,299,300,5000}); ops whose SWIM precondition does not hold are skipped "
                 "and counted. Non-trivial: an address change of a present member followed by RTT samples for both addresses, or a Down for an identity that is not "
                 "the listed one (older, or newer after a Rename). Distinct = hash of the op list."),
        "assumptions": ["equal-timestamp Ups with different address/cluster: either identity may be listed",
                        "a member whose current address has no sample may carry any ring except 0"],
    },
    "C04": {
        "level": "exploration",
        "workers": 16,
        "engine": "E1-pure",
        "technique": ("property-based testing (proptest) + exhaustive small-scope sweep; oracle: set model of the advertised sync states "
                      "(pure: compute_available_needs; wire: the Request frames the real parallel_sync sends to 1-3 harness-played QUIC servers)"),
        "level_text": ("generated pairs of well-formed sync states checked against a set model in both directions (completeness: every "
                       "version / missing seq the peer holds and we lack is requested; bounds: within the peer's head, only advertised actors, "
                       "never our own actor, partial requests inside what we miss); one-actor scope with heads<=3 swept exhaustively; "
                       "sub-campaign `wire`: a real setup() node runs the real parallel_sync over a real Transport against 1-3 servers played by "
                       "the harness on real QUIC endpoints, which answer the handshake with generated states and record every Request frame "
                       "(block cutting by ten, hand-out ten at a time, de-duplication across the servers of a round) - same set model, "
                       "completeness modulo the de-duplication (requested from at least one server that can be asked for it)"),
        "level_note": ("trusts the harness' set model of 'holds'/'lacks' derived from the generated states; compute_available_needs and parallel_sync are "
                       "the real code; the servers of the wire sub-campaign are harness code speaking the real frame format"),
        "rule": ("generated: 1-4 actors, heads 0..=16 or unknown on either side, per version Held/Need/Partial with a hidden shared last_seq "
                 "(0..=9) and a proper non-empty missing-seq set, the peer optionally advertising our own actor id; sweep: 1 actor, heads<=3, "
                 "every class combination. Non-trivial: both sides have gaps AND some version is partial on both sides with different missing sets. "
                 "wire: 1-3 actors, heads up to 45, 1-3 servers; non-trivial: several servers AND a Full need cut into blocks AND something "
                 "several servers could be asked for AND a missing sequence some server has. Distinct = hash of the generated case."),
        "assumptions": ["well-formed states as generate_sync produces them: the head version itself is never in `need`; partial versions lie within the head",
                        "requests for versions above our head are bounded by the peer's head only (the statement does not require excluding versions the peer itself needs)",
                        "wire: with several servers in one round the client asks one of them for each item (its de-duplication); the check demands a request to at "
                        "least one server that can be asked for the item, and the full statement when there is one server"],
    },
    "C08": {
        "level": "exploration",
        "workers": 16,
        "rule": ("generated: start<=last in 0..=120, strictly increasing seq subsets of [start,last] (dense/holey/empty/"
                 "ending early), payload sizes 0..9000 B, size limit in {0,1,40,..,8192,20000,usize::MAX} optionally changed "
                 "between chunks; chunk_range over ranges up to 10^6 with chunk size 1..=50, both instantiations; plus an "
                 "exhaustive sweep (last<=6, all subsets, 3 limits). Non-trivial: >=3 chunks AND a hole at a chunk border "
                 "(chunks) / >=2 sub-ranges (range). Distinct = hash of the generated case."),
        "engine": "E1-pure",
        "technique": "property-based testing (proptest) + exhaustive small-scope sweep; oracle: exact tiling/partition predicate",
        "level_text": ("generated-input search against an exact validity predicate (tiling of [start,last], exact ordered "
                       "partition of the input); small scope swept exhaustively, the rest sampled (10^5 quick / 10^7 thorough)"),
        "level_note": "trusts proptest's generators and the harness' own predicate; ChunkedChanges and chunk_range are the real code (chunk_range via feature-gated wrapper)",
        "assumptions": ["ChunkedChanges is fed seqs inside [start,last] as its callers do (SQL BETWEEN / MAX(seq))",
                        "chunk size >= 1 (the only caller passes 10)"],
    },
}

def _serves(name):
    return sorted(pid for pid, conf in PROPS.items() if name in conf.get("engine", ""))


ENGINES = [
    {"name": "E1-pure", "path": "/verif/harness", "serves_properties": _serves("E1-pure"),
     "kind_free_text": "proptest TestRunner driven from the kverif binary over pure / single-connection code"},
    {"name": "E2-sim", "path": "/verif/harness", "serves_properties": _serves("E2-sim"),
     "kind_free_text": "in-process nodes from the real setup(); the harness is network, scheduler and sync driver, requests go through the real HTTP handlers (C15, C19 also drive the real CLI binary; C20's mix sub-campaign uses a live agent)"},
    {"name": "E3-live", "path": "/verif/harness", "serves_properties": _serves("E3-live"),
     "kind_free_text": "full agents on loopback (HTTP API, QUIC) driven by generated request/change/attach/shutdown sequences"},
    {"name": "E4-fuzz", "path": "/verif/fuzz", "serves_properties": ["C09"],
     "kind_free_text": "cargo-fuzz / libFuzzer targets (frames, keys) that include the harness' C09 oracle by path; run by ./check C09 --tier thorough after the generated campaigns, crash artifacts are turned into harness replays"},
]

# properties not (yet) claimed; kept current as checks land
NOT_APPLICABLE = [
    {"property_id": pid, "reason": "check not built yet in this round (planned, see DESIGN.md §2); not claimed until its check runs silent on the unchanged tree"}
    for pid in ["C01","C02","C03","C04","C05","C06","C07","C09","C10","C11","C12","C13","C14","C15","C16","C17","C18","C19","C20"]
    if pid not in PROPS
]
