#!/usr/bin/env python3
"""Apply a seeded change to /repo, run the given checks (quick tier), undo it, and record the outcome.

  tools/seed_eval.py <seed-dir> <PROP> [<PROP>...] [--tier quick|thorough] [--scale F]

<seed-dir> is /verif/seeded/<name>/ containing patch.diff (applied with `git -C /repo apply`).
The result (which checks raised a VIOLATION) is appended to <seed-dir>/results.jsonl.
The patch is always undone (git -C /repo checkout -- .) - also on errors.
"""
import json, os, subprocess, sys, time
args = sys.argv[1:]
seed = os.path.abspath(args[0]); props = []; tier = "quick"; scale = None
i = 1
while i < len(args):
    if args[i] == "--tier": tier = args[i+1]; i += 2
    elif args[i] == "--scale": scale = args[i+1]; i += 2
    else: props.append(args[i]); i += 1
patch = os.path.join(seed, "patch.diff")
assert subprocess.run(["git", "-C", "/repo", "status", "--porcelain", "--untracked-files=no"], capture_output=True, text=True).stdout.strip() == "", "/repo has local changes"
subprocess.check_call(["git", "-C", "/repo", "apply", patch])
out = []
try:
    for p in props:
        t0 = time.time()
        cmd = ["/verif/check", p, "--tier", tier] + (["--scale", scale] if scale else [])
        r = subprocess.run(cmd, capture_output=True, text=True, cwd="/verif")
        viol = [l for l in r.stdout.splitlines() if l.startswith("VIOLATION")]
        first = None
        if viol:
            path = viol[0].split("replay=")[1]
            try:
                d = json.load(open(path)); first = {"sub": d.get("sub"), "clause": d.get("clause"), "msg": (d.get("msg") or "")[:400]}
            except Exception:
                pass
        rec = {"seed": os.path.basename(seed), "check": p, "tier": tier, "exit": r.returncode, "violations": len(viol), "first": first, "wall_s": round(time.time()-t0, 1),
               "repo_head": subprocess.check_output(["git", "-C", "/repo", "log", "--format=%h", "-1"], text=True).strip()}
        out.append(rec)
        print(json.dumps(rec))
finally:
    subprocess.check_call(["git", "-C", "/repo", "checkout", "--", "."])
with open(os.path.join(seed, "results.jsonl"), "a") as f:
    for rec in out:
        f.write(json.dumps(rec) + "\n")
