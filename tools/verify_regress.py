#!/usr/bin/env python3
"""For every *fixed* finding: take /repo's HEAD in a scratch worktree, revert just that fix, build a scratch copy
of the harness against it and run the finding's committed replays: each must FAIL there (and they pass on HEAD,
which every ./check run establishes).  Results go to /verif/findings/regress_verification.json.

  tools/verify_regress.py [<finding-id-substring> ...]

Scratch space: /tmp/kverif-prefix (worktree, harness copy, target dir) - removed at the end.
"""
import json, os, shutil, subprocess, sys, time

ROOT = "/verif"
SCR = "/tmp/kverif-prefix"
WT = os.path.join(SCR, "wt")
H = os.path.join(SCR, "harness")
only = sys.argv[1:]


def sh(cmd, **kw):
    return subprocess.run(cmd, shell=isinstance(cmd, str), capture_output=True, text=True, **kw)


def main():
    findings = [f for f in json.load(open(os.path.join(ROOT, "known_findings.json")))["findings"] if f.get("status") == "fixed"]
    if only:
        findings = [f for f in findings if any(o in f["id"] for o in only)]
    shutil.rmtree(SCR, ignore_errors=True)
    os.makedirs(SCR)
    sh(["git", "-C", "/repo", "worktree", "prune"])
    r = sh(["git", "-C", "/repo", "worktree", "add", "--detach", WT, "HEAD", "-q"])
    assert r.returncode == 0, r.stderr
    # harness copy with its path dependencies pointing into the worktree
    shutil.copytree(os.path.join(ROOT, "harness"), H, ignore=shutil.ignore_patterns("target"))
    ct = open(os.path.join(H, "Cargo.toml")).read().replace('"/repo/crates/', f'"{WT}/crates/')
    open(os.path.join(H, "Cargo.toml"), "w").write(ct)
    env = dict(os.environ, CARGO_NET_OFFLINE="true", CARGO_TARGET_DIR=os.path.join(SCR, "target"), RUST_LOG="off")
    out = []
    head = sh(["git", "-C", "/repo", "rev-parse", "--short", "HEAD"]).stdout.strip()
    for f in findings:
        t0 = time.time()
        sh(["git", "-C", WT, "checkout", "-q", "--", "."])
        sh(["git", "-C", WT, "clean", "-fdq"])
        # commits are recorded by subject as well (hashes change when history is amended)
        c = f["commit"]
        rv = sh(["git", "-C", WT, "revert", "-n", "--no-edit", c])
        entry = {"id": f["id"], "property": f["property"], "commit": c, "head": head}
        if rv.returncode != 0:
            sh(["git", "-C", WT, "revert", "--abort"])
            sh(["git", "-C", WT, "checkout", "-q", "--", "."])
            entry["result"] = "revert-conflict"
            entry["detail"] = (rv.stderr or rv.stdout)[-300:]
            out.append(entry)
            print(json.dumps(entry), flush=True)
            continue
        b = sh(["cargo", "build", "--offline", "--quiet"], cwd=H, env=env)
        if b.returncode != 0:
            entry["result"] = "build-failed"
            entry["detail"] = b.stderr[-400:]
            out.append(entry)
            print(json.dumps(entry), flush=True)
            continue
        binp = os.path.join(SCR, "target", "debug", "kverif")
        reps = []
        for rp in f.get("replay", []):
            path = os.path.join(ROOT, rp)
            attempts = 1
            try:
                attempts = max(1, int(json.load(open(path)).get("attempts", 1)))
            except Exception:
                pass
            # schedule dependent replays get more attempts here than in the regression tier
            attempts = max(attempts, 1)
            failed = False
            line = ""
            for _ in range(attempts):
                r = sh([binp, "replay", os.path.basename(rp)[:3], path], env=env)
                line = [l for l in r.stdout.splitlines() if l.startswith("REPLAY-")][-1:] or [""]
                line = line[0][:200]
                if r.returncode == 1:
                    failed = True
                    break
            reps.append({"replay": rp, "fails_without_fix": failed, "last": line})
        entry["replays"] = reps
        entry["result"] = "all-fail" if reps and all(x["fails_without_fix"] for x in reps) else ("some-fail" if any(x["fails_without_fix"] for x in reps) else "none-fail")
        entry["wall_s"] = round(time.time() - t0, 1)
        out.append(entry)
        print(json.dumps(entry)[:600], flush=True)
    os.makedirs(os.path.join(ROOT, "findings"), exist_ok=True)
    dst = os.path.join(ROOT, "findings", "regress_verification.json")
    prev = []
    if only and os.path.exists(dst):
        prev = [e for e in json.load(open(dst)) if not any(o in e["id"] for o in only)]
    json.dump(prev + out, open(dst, "w"), indent=1)
    sh(["git", "-C", "/repo", "worktree", "remove", "--force", WT])
    shutil.rmtree(SCR, ignore_errors=True)


main()
